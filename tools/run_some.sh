#!/bin/bash
# usage: tools/run_some.sh <tier> <timeout> <id>...   — runs the listed checks sequentially
tier=$1; tmo=$2; shift 2
cd /verif
for id in "$@"; do
  t0=$(date +%s)
  timeout $tmo ./bin/gosmt check -property $id -tier $tier > /tmp/runsome_${tier}_$id.log 2>&1
  rc=$?
  echo "$id exit=$rc $(($(date +%s)-t0))s $(tail -1 /tmp/runsome_${tier}_$id.log | cut -c1-200)"
done
