#!/bin/bash
# confirm_seed.sh <name> <worktree> <demo_dir> <pkgdir>   — confirms a seeded change independently:
# suite passes with the change, demo fails with it, demo passes without it. Prints a JSON line.
name=$1; wt=$2; demo=$3; pkg=$4
export GOFLAGS=-mod=readonly GOPROXY=off GOSUMDB=off
cd $wt || exit 2
git checkout -q -- . ; git apply $demo/patch.diff || { echo "apply failed"; exit 2; }
suite=$(go test -vet=off -count=1 ./... 2>&1 | grep -c "^ok")
suitefail=$(go test -vet=off -count=1 ./... 2>&1 | grep -c "^FAIL\|^---")
cp $demo/demo_test.go $pkg/zz_demo_test.go
timeout 300 go test -vet=off -count=1 -run 'Demo|demo|DEMO' ./$pkg/ > /tmp/seed_with.log 2>&1; with=$?
git checkout -q -- . 
timeout 300 go test -vet=off -count=1 -run 'Demo|demo|DEMO' ./$pkg/ > /tmp/seed_without.log 2>&1; without=$?
rm -f $pkg/zz_demo_test.go
git apply $demo/patch.diff
echo "{\"name\":\"$name\",\"suite_ok_pkgs\":$suite,\"suite_fail_lines\":$suitefail,\"demo_exit_with_change\":$with,\"demo_exit_without_change\":$without}"
