#!/bin/bash
# Runs every registered check (quick tier by default) and prints exit codes.
# usage: tools/run_all.sh [quick|thorough] [per-check timeout, e.g. 45m]
tier=${1:-quick}
tmo=${2:-4h}
cd /verif
for id in $(python3 -c "import json;print(' '.join(c['property_id'] for c in json.load(open('MANIFEST.json'))['checks']))"); do
  t0=$(date +%s)
  timeout $tmo ./bin/gosmt check -property $id -tier $tier > /tmp/runall_${tier}_$id.log 2>&1
  rc=$?
  echo "$id exit=$rc $(($(date +%s)-t0))s $(tail -1 /tmp/runall_${tier}_$id.log | cut -c1-200)"
done
