#!/bin/bash
# Runs every registered check (quick tier by default) and prints exit codes.
tier=${1:-quick}
cd /verif
for id in $(python3 -c "import json;print(' '.join(c['property_id'] for c in json.load(open('MANIFEST.json'))['checks']))"); do
  t0=$(date +%s)
  ./bin/gosmt check -property $id -tier $tier > /tmp/runall_$id.log 2>&1
  rc=$?
  echo "$id exit=$rc $(($(date +%s)-t0))s $(tail -1 /tmp/runall_$id.log | cut -c1-200)"
done
