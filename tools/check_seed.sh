#!/bin/bash
# usage: tools/check_seed.sh <seed dir name, e.g. C04-2> [property id to check, default: the seed's property]
# Applies a stored seeded change to a scratch worktree of /repo (never to /repo itself), runs the
# property's quick check against it with a scratch verification directory (the committed evidence
# is not touched) and removes the worktree. Exit code = exit code of the check (1 = caught).
seed=$1
prop=${2:-${seed%%-*}}
wt=$(mktemp -d /tmp/seedwt.XXXXXX); vs=$(mktemp -d /tmp/seedvs.XXXXXX)
rmdir $wt
git -C /repo worktree add -q --detach $wt HEAD || exit 2
git -C $wt apply /verif/seeded/$seed/patch.diff || { git -C /repo worktree remove --force $wt; exit 2; }
cp -r /verif/harness $vs/harness; cp /verif/known_findings.json $vs/
/verif/bin/gosmt check -repo $wt -verif $vs -property $prop | grep -E 'VIOLATION|SUMMARY|ENGINE-FAULT|UNCONFIRMED' | cut -c1-300
rc=${PIPESTATUS[0]}
git -C /repo worktree remove --force $wt; git -C /repo worktree prune; rm -rf $vs $wt
echo "seed=$seed property=$prop exit=$rc"
exit $rc
