#!/usr/bin/env python3
import json, sys, os
sys.path.insert(0, os.path.dirname(__file__))
import manifest_src as S
props = [json.loads(l) for l in open('/verif/properties.jsonl')]
checks, na = [], []
for p in props:
    pid = p["id"]
    if pid in S.CHECKS:
        c = S.CHECKS[pid]
        checks.append({
            "property_id": pid,
            "quick_cmd": f"./bin/gosmt check -property {pid} -tier quick",
            "thorough_cmd": f"./bin/gosmt check -property {pid} -tier thorough",
            "evidence_file": f"/verif/evidence/{pid}.json",
            "replay_cmd_template": "./bin/gosmt replay {path}",
            "engine": "gosmt",
            "level_claimed": {"category": "model_checking", "text": c["text"], "design_ref": c["design"]},
            "level_note": c["note"],
            "technique": c["technique"],
        })
    else:
        na.append({"property_id": pid, "reason": S.NA.get(pid, S.NOT_BUILT)})
m = {
 "version": 1,
 "setup_cmd": "cd /verif/engine && GOFLAGS=-mod=mod GOPROXY=off GOSUMDB=off GOTOOLCHAIN=local go build -o /verif/bin/gosmt ./cmd/gosmt",
 "hooks": {"guard": "verif", "enable": "none needed: harnesses are injected in-package through a go/packages + go build overlay; no file in /repo is guarded or modified", "baseline_off_cmd": "cd /repo && GOFLAGS=-mod=readonly GOPROXY=off go test -vet=off -count=1 ./...", "source_commits": [], "add_only": True},
 "engines": [{"name": "gosmt", "path": "/verif/engine", "serves_properties": sorted(S.CHECKS.keys()), "kind_free_text": "go/ssa symbolic executor -> SMT-LIB2 -> z3 4.8.12 / z3 5.1.0 / cvc5 1.0.3, native replay through go test -overlay"}],
 "checks": checks,
 "notes": "Solver-based checking of the real code; see DESIGN.md. Exit codes: 0 held / 1 VIOLATION (replay-confirmed) / 2 engine fault or inconclusive.",
 "not_applicable": na,
}
json.dump(m, open('/verif/MANIFEST.json', 'w'), indent=1)
print("checks:", [c["property_id"] for c in checks], "n/a:", len(na))
