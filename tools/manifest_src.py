# Source of /verif/MANIFEST.json (python3 tools/mkmanifest.py regenerates it).
CHECKS = {
 "C15": dict(
  text="Bounded symbolic model checking of the real decoders (go/ssa -> SMT): for every input byte string (token-stream abstraction: any length, any content) no index/slice/nil/div/make panic, no allocation above 50M elements, all loops within their unwinding bound. Per-element loops unrolled to <= 2 (quick) / 3 (thorough) elements; polygon decoders checked compositionally (loop decoders verified separately, then over-approximated).",
  note="Trusted: go/ssa, the gosmt executor, z3/cvc5; stubs: io.Reader/ByteReader and binary.ReadUvarint as a nondeterministic token oracle (every read returns arbitrary bytes/value or EOF), fmt.Errorf/errors.New opaque, float geometry run on decoded values (ExpandForSubregions, initBound, initLoopProperties, initEdgesAndIndex, facePiQitoXYZ) stubbed out = outside the claim; element counts above the split bound not explored.",
  technique="go/ssa symbolic execution + SMT (QF_BV), z3 4.8.12/5.1.0 portfolio, native replay of models",
  design="DESIGN.md §4 C15"),
 "C11": dict(
  text="Bounded symbolic model checking of the real CellUnion code against the leaf-interval model (covered(U,x) for a universally quantified probe leaf x): Normalize on sorted inputs of length <= 4 (quick) / 6 (thorough) plus the inductive step of its main loop (normalized prefix <= 3/5 + one more id), sort permutation, idempotence, ContainsCellID/IntersectsCellID/Contains/Intersects, intersection, intersection with a cell, union, difference (level gap <= 1/2), LeafCellsCovered. A feasible path beyond an unwinding bound is replayed natively: a hang is reported as a violation.",
  note="Trusted: go/ssa, gosmt, solvers. sort.Sort modelled as a compare-exchange network running the real Less/Swap (n<=8) and checked to return a sorted permutation; in Normalize harnesses the sort is the identity on inputs assumed sorted. Lengths above the stated bounds, CellUnionFromRange/MaxTile tiling, CellIndex and s2intersect are outside this check (see DESIGN).",
  technique="go/ssa symbolic execution + SMT (QF_BV) with probe-leaf reference model, z3 5.1.0/4.8.12 portfolio, native replay",
  design="DESIGN.md §4 C11"),
 "C06": dict(
  text="Bounded symbolic model checking of the Shape contract on the real accessors of LaxLoop, LaxPolyline, Polyline, PointVector, LaxPolygon (0-3 loops x 0-3 vertices), Loop and Polygon (1-3 loops, both the linear-search and the cumulativeEdges path, holes reversed): chains are contiguous and cover NumEdges, ChainPosition inverts Chain, ChainEdge(ChainPosition(e)) == Edge(e) and ChainEdge(i,j) == Edge(Chain(i).Start+j) for symbolic edge/offset indices, no accessor panics in range.",
  note="Vertices are distinct concrete points (only indices matter); shapes of the listed sizes only. Index location logic, index-cell assembly and the equality of index queries with brute force on geometry are not covered by this check (geometric completeness of clipping is outside the technique, DESIGN §4 C06).",
  technique="go/ssa symbolic execution + SMT (BV indices, FP equality of selected constants), native replay",
  design="DESIGN.md §4 C06"),
 "C08": dict(
  text="Bounded symbolic model checking of the real EdgeQuery: the optimized search (index covering, queue, pruning, duplicate avoidance, result truncation) and the brute-force scan run on the same concrete index spanning four cube faces (36 point edges) for closest and furthest queries, a point target and a ShapeIndex target with and without maxError; maxResults is a solver variable in [1,40]; results must be identical (or within maxError and equal in number).",
  note="Index geometry and targets are concrete (one index, two targets); only the options are symbolic, so this decides the search skeleton on that index, not the distance geometry (Cell.Distance lower bounds, cap/covering geometry are outside the technique, DESIGN §4 C08). sort.Slice = bubble network with the real Less.",
  technique="go/ssa symbolic execution of real code on concrete geometry with symbolic options + SMT (BV/FP compare), native replay",
  design="DESIGN.md §4 C08"),
 "C13": dict(
  text="Bounded symbolic model checking over call histories: (1) ShapeIndex: every history of <= 4 (quick) / 5 (thorough) operations from {Add, Remove(j), Build, Reset} (operation codes/operands are solver variables) followed by a query: index fresh, every present shape visible, no index cell references an absent shape, no Lock on a held mutex (self-deadlock), no panic; (2) EdgeQuery: FindEdges, then any two of {Distance, IsDistanceLess, IsDistanceGreater, IsConservativeDistanceLessOrEqual, FindEdges}, then FindEdges returns the same results, for closest/furthest, maxResults in [1,6].",
  note="Shapes are four concrete one-point PointVectors / one concrete 6-point index; the real index construction runs concretely inside the executor. sync.RWMutex modelled as a ghost held-flag for the single executing thread; atomic load/store as plain accesses. Histories longer than the bound and the geometric equality of an updated index with a fresh build are outside.",
  technique="go/ssa symbolic execution with symbolic operation sequences + SMT path feasibility, native replay of the history",
  design="DESIGN.md §4 C13"),
 "C19": dict(
  text="Bounded symbolic model checking of the real r1.Interval (exact IEEE-754, SMT FloatingPoint) and s1.Interval (real+UF abstraction with IEEE lemma instances; abstract counterexamples are re-decided in exact IEEE arithmetic and replayed) code against point membership with a universally quantified probe point: union, intersection, Intersects, ContainsInterval, interior variants, AddPoint, ClampPoint/Project, Expanded (r1; s1: validity, empty/full), Complement covering, endpoint constructors, Length sign, ±π handling, validity of every result; inputs: all finite doubles (r1) / all valid intervals incl. empty, full, singleton, inverted, ±π (s1).",
  note="r1: no abstraction (every double incl. ±0, NaN excluded by assumption). s1: RUF assumes no NaN/overflow and identifies ±0; lemma schemas L1-L10 (DESIGN §3.3) are the trusted base; FPX variants of the s1 harnesses run in the thorough tier. Not decided: s1.Interval.Expanded keeping every point through the math.Remainder wrap, r2/s2.Rect lifts, cap and chord-angle clauses (not built yet), cap membership on the sphere (outside the technique).",
  technique="go/ssa symbolic execution + SMT: QF_FP exact for r1, LRA+UF with ground IEEE lemmas for s1 with FPX re-check of counterexamples; cvc5/z3 portfolio; native replay",
  design="DESIGN.md §4 C19"),
}
NOT_BUILT = "check not built yet (designed in DESIGN.md section 4)"
NA = {}
