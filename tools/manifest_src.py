# Source of /verif/MANIFEST.json (python3 tools/mkmanifest.py regenerates it).
CHECKS = {
 "C15": dict(
  text="Bounded symbolic model checking of the real decoders (go/ssa -> SMT): for every input byte string (token-stream abstraction: any length, any content) no index/slice/nil/div/make panic, no allocation above 50M elements, all loops within their unwinding bound. Per-element loops unrolled to <= 2 (quick) / 3 (thorough) elements; polygon decoders checked compositionally (loop decoders verified separately, then over-approximated).",
  note="Trusted: go/ssa, the gosmt executor, z3/cvc5; stubs: io.Reader/ByteReader and binary.ReadUvarint as a nondeterministic token oracle (every read returns arbitrary bytes/value or EOF), fmt.Errorf/errors.New opaque, float geometry run on decoded values (ExpandForSubregions, initBound, initLoopProperties, initEdgesAndIndex, facePiQitoXYZ) stubbed out = outside the claim; element counts above the split bound not explored.",
  technique="go/ssa symbolic execution + SMT (QF_BV), z3 4.8.12/5.1.0 portfolio, native replay of models",
  design="DESIGN.md §4 C15"),
}
NOT_BUILT = "check not built yet (designed in DESIGN.md section 4)"
NA = {}
