package sx

import (
	"fmt"
	"math"
	"math/big"
	"sort"
	"strings"
)

// Domain selects how float64 terms are encoded.
type Domain int

const (
	DomNone Domain = iota // floats may only appear as bit patterns / constants
	DomFPX                // exact IEEE-754 binary64 (SMT FloatingPoint)
	DomRUF                // reals + uninterpreted rounded operations + ground lemmas
)

func (d Domain) String() string {
	return [...]string{"BV", "FPX", "RUF"}[d]
}

// Printer renders a set of assertions into an SMT-LIB2 script fragment
// (declarations, shared sub-term definitions, asserts).
type Printer struct {
	Dom      Domain
	DefPrefix string                  // prefix of shared sub-term definition names (several printers in one script)
	VarSuffix func(string) string     // optional renaming of variables (per thread instance)
	Light    bool // RUF: emit only per-instance lemmas (used for path-feasibility queries; coarser but sound)
	tf       *TF
	out      strings.Builder
	declared map[string]bool
	names    map[int]string
	refs     map[int]int
	fresh    int
	extra    []string       // side assertions (bit links, lemma instances)
	ruf      *rufState      // RUF lemma bookkeeping
	UsedUF   map[string]int // statistics: uninterpreted symbols used
	Err      error
}

func NewPrinter(tf *TF, dom Domain) *Printer {
	p := &Printer{Dom: dom, tf: tf, declared: map[string]bool{}, names: map[int]string{}, refs: map[int]int{}, UsedUF: map[string]int{}}
	if dom == DomRUF {
		p.ruf = newRufState()
	}
	return p
}

func (p *Printer) sortStr(s Sort) string {
	switch s.K {
	case KBool:
		return "Bool"
	case KBV:
		return fmt.Sprintf("(_ BitVec %d)", s.W)
	case KReal:
		return "Real"
	case KFloat:
		switch p.Dom {
		case DomFPX:
			return "(_ FloatingPoint 11 53)"
		case DomRUF:
			return "Real"
		default:
			p.fail("float-sorted term in a harness without numeric domain")
			return "(_ BitVec 64)"
		}
	}
	return "?"
}

func (p *Printer) fail(msg string) {
	if p.Err == nil {
		p.Err = fmt.Errorf("%s", msg)
	}
}

func (p *Printer) countRefs(t *Term) {
	p.refs[t.ID]++
	if p.refs[t.ID] > 1 {
		return
	}
	for _, a := range t.Args {
		p.countRefs(a)
	}
}

func smtName(n string) string {
	ok := true
	for _, c := range n {
		if !(c >= 'a' && c <= 'z' || c >= 'A' && c <= 'Z' || c >= '0' && c <= '9' || c == '_' || c == '.' || c == '!' || c == '$') {
			ok = false
		}
	}
	if ok && n != "" && !(n[0] >= '0' && n[0] <= '9') {
		return n
	}
	return "|" + strings.ReplaceAll(n, "|", "/") + "|"
}

func (p *Printer) declare(name string, args []Sort, res Sort) {
	if p.declared[name] {
		return
	}
	p.declared[name] = true
	var as []string
	for _, a := range args {
		as = append(as, p.sortStr(a))
	}
	fmt.Fprintf(&p.out, "(declare-fun %s (%s) %s)\n", smtName(name), strings.Join(as, " "), p.sortStr(res))
}

func (p *Printer) declareRaw(name, sig string) {
	if p.declared[name] {
		return
	}
	p.declared[name] = true
	fmt.Fprintf(&p.out, "(declare-fun %s %s)\n", smtName(name), sig)
}

func bvLit(u uint64, w int) string {
	if w%4 == 0 {
		return fmt.Sprintf("#x%0*x", w/4, u&mask(w))
	}
	return fmt.Sprintf("#b%0*b", w, u&mask(w))
}

func ratStr(r *big.Rat) string {
	neg := r.Sign() < 0
	a := new(big.Rat).Abs(r)
	var s string
	if a.IsInt() {
		s = a.Num().String() + ".0"
	} else {
		s = fmt.Sprintf("(/ %s.0 %s.0)", a.Num().String(), a.Denom().String())
	}
	if neg {
		return "(- " + s + ")"
	}
	return s
}

var rufInf = new(big.Rat).SetInt(new(big.Int).Lsh(big.NewInt(1), 1100))

func (p *Printer) floatConst(x float64) string {
	switch p.Dom {
	case DomFPX:
		b := math.Float64bits(x)
		return fmt.Sprintf("(fp #b%b #b%011b #x%013x)", b>>63, (b>>52)&0x7ff, b&((1<<52)-1))
	case DomRUF:
		if math.IsNaN(x) {
			p.fail("NaN constant in RUF domain")
			return "0.0"
		}
		if math.IsInf(x, 1) {
			return ratStr(rufInf)
		}
		if math.IsInf(x, -1) {
			return ratStr(new(big.Rat).Neg(rufInf))
		}
		return ratStr(new(big.Rat).SetFloat64(x))
	}
	p.fail("float constant in a harness without numeric domain")
	return "#x0000000000000000"
}

var bvOpName = map[Op]string{
	OAdd: "bvadd", OSub: "bvsub", OMul: "bvmul", OUDiv: "bvudiv", OURem: "bvurem", OSDiv: "bvsdiv", OSRem: "bvsrem",
	OBAnd: "bvand", OBOr: "bvor", OBXor: "bvxor", OShl: "bvshl", OLShr: "bvlshr", OAShr: "bvashr",
	OULt: "bvult", OULe: "bvule", OSLt: "bvslt", OSLe: "bvsle", ONeg: "bvneg", OBNot: "bvnot", OConcat: "concat",
}

// ref returns the SMT text denoting t, emitting definitions for shared nodes.
func (p *Printer) ref(t *Term) string {
	if n, ok := p.names[t.ID]; ok {
		return n
	}
	s := p.render(t)
	if len(t.Args) > 0 && (p.refs[t.ID] > 1 || len(s) > 400) {
		n := fmt.Sprintf("t!%s%d", p.DefPrefix, t.ID)
		fmt.Fprintf(&p.out, "(define-fun %s () %s %s)\n", n, p.sortStr(t.S), s)
		p.names[t.ID] = n
		return n
	}
	p.names[t.ID] = s
	return s
}

func (p *Printer) nary(op string, t *Term) string {
	var sb strings.Builder
	sb.WriteByte('(')
	sb.WriteString(op)
	for _, a := range t.Args {
		sb.WriteByte(' ')
		sb.WriteString(p.ref(a))
	}
	sb.WriteByte(')')
	return sb.String()
}

func (p *Printer) render(t *Term) string {
	switch t.Op {
	case OVar:
		name := t.Name
		if p.VarSuffix != nil {
			name = p.VarSuffix(name)
		}
		p.declare(name, nil, t.S)
		if t.S.K == KFloat && p.Dom == DomRUF {
			p.ruf.witnesses[smtName(name)] = true
		}
		return smtName(name)
	case OConst:
		switch t.S.K {
		case KBool:
			if t.B {
				return "true"
			}
			return "false"
		case KBV:
			return bvLit(t.U, t.S.W)
		case KReal:
			return ratStr(t.R)
		case KFloat:
			return p.floatConst(t.F)
		}
	case ONot:
		return p.nary("not", t)
	case OAnd:
		return p.nary("and", t)
	case OOr:
		return p.nary("or", t)
	case OIte:
		return p.nary("ite", t)
	case OEq:
		return p.nary("=", t)
	case OAdd, OSub, OMul, OUDiv, OURem, OSDiv, OSRem, OBAnd, OBOr, OBXor, OShl, OLShr, OAShr, OULt, OULe, OSLt, OSLe, ONeg, OBNot, OConcat:
		return p.nary(bvOpName[t.Op], t)
	case OExtract:
		return fmt.Sprintf("((_ extract %d %d) %s)", t.U>>8, t.U&0xff, p.ref(t.Args[0]))
	case OZExt:
		return fmt.Sprintf("((_ zero_extend %d) %s)", t.U, p.ref(t.Args[0]))
	case OSExt:
		return fmt.Sprintf("((_ sign_extend %d) %s)", t.U, p.ref(t.Args[0]))
	case ORAdd:
		return p.nary("+", t)
	case ORSub:
		return p.nary("-", t)
	case ORMul:
		return p.nary("*", t)
	case ORDiv:
		return p.nary("/", t)
	case ORNeg:
		return p.nary("-", t)
	case ORLt:
		return p.nary("<", t)
	case ORLe:
		return p.nary("<=", t)
	case OUF:
		var as []Sort
		for _, a := range t.Args {
			as = append(as, a.S)
		}
		p.declare(t.Name, as, t.S)
		p.UsedUF[t.Name]++
		if len(t.Args) == 0 {
			return smtName(t.Name)
		}
		return p.nary(smtName(t.Name), t)
	}
	// float operations
	switch p.Dom {
	case DomFPX:
		return p.renderFPX(t)
	case DomRUF:
		return p.renderRUF(t)
	}
	p.fail(fmt.Sprintf("float operation (op %d %s) in a harness without numeric domain", t.Op, t.Name))
	return "false"
}

func (p *Printer) freshName(prefix string) string {
	p.fresh++
	return fmt.Sprintf("%s!%d", prefix, p.fresh)
}

func (p *Printer) renderFPX(t *Term) string {
	a := func(i int) string { return p.ref(t.Args[i]) }
	switch t.Op {
	case OFAdd:
		return fmt.Sprintf("(fp.add RNE %s %s)", a(0), a(1))
	case OFSub:
		return fmt.Sprintf("(fp.sub RNE %s %s)", a(0), a(1))
	case OFMul:
		return fmt.Sprintf("(fp.mul RNE %s %s)", a(0), a(1))
	case OFDiv:
		return fmt.Sprintf("(fp.div RNE %s %s)", a(0), a(1))
	case OFNeg:
		return fmt.Sprintf("(fp.neg %s)", a(0))
	case OFAbs:
		return fmt.Sprintf("(fp.abs %s)", a(0))
	case OFSqrt:
		return fmt.Sprintf("(fp.sqrt RNE %s)", a(0))
	case OFLt:
		return fmt.Sprintf("(fp.lt %s %s)", a(0), a(1))
	case OFLe:
		return fmt.Sprintf("(fp.leq %s %s)", a(0), a(1))
	case OFEq:
		return fmt.Sprintf("(fp.eq %s %s)", a(0), a(1))
	case OFIsNaN:
		return fmt.Sprintf("(fp.isNaN %s)", a(0))
	case OFIsInf:
		return fmt.Sprintf("(fp.isInfinite %s)", a(0))
	case OFToSInt:
		return fmt.Sprintf("((_ fp.to_sbv %d) RTZ %s)", t.S.W, a(0))
	case OSIntToF:
		return fmt.Sprintf("((_ to_fp 11 53) RNE %s)", a(0))
	case OUIntToF:
		return fmt.Sprintf("((_ to_fp_unsigned 11 53) RNE %s)", a(0))
	case OFFromBits:
		return fmt.Sprintf("((_ to_fp 11 53) %s)", a(0))
	case OFBits:
		n := p.freshName("bits")
		p.declare(n, nil, SBV(64))
		x := a(0)
		// canonical NaN pattern for NaN (Go produces 0x7ff8000000000001 for math.NaN(); payloads are not modelled)
		p.extra = append(p.extra, fmt.Sprintf("(= ((_ to_fp 11 53) %s) %s)", n, x))
		return n
	case OFToReal:
		return fmt.Sprintf("(fp.to_real %s)", a(0))
	case ORealToF:
		return fmt.Sprintf("((_ to_fp 11 53) RNE %s)", a(0))
	case OFFun:
		switch t.Name {
		case "floor":
			return fmt.Sprintf("(fp.roundToIntegral RTN %s)", a(0))
		case "ceil":
			return fmt.Sprintf("(fp.roundToIntegral RTP %s)", a(0))
		case "trunc":
			return fmt.Sprintf("(fp.roundToIntegral RTZ %s)", a(0))
		case "round":
			return fmt.Sprintf("(fp.roundToIntegral RNA %s)", a(0))
		case "rint":
			return fmt.Sprintf("(fp.roundToIntegral RNE %s)", a(0))
		case "remainder":
			return fmt.Sprintf("(fp.rem %s %s)", a(0), a(1))
		}
		var as []Sort
		for range t.Args {
			as = append(as, SFloat)
		}
		p.declare("fp_"+t.Name, as, SFloat)
		p.UsedUF["fp_"+t.Name]++
		return p.nary("fp_"+t.Name, t)
	}
	p.fail(fmt.Sprintf("unsupported op %d in FPX", t.Op))
	return "false"
}

// Script renders the assertions; vars lists terms whose values are requested.
// The result contains no (check-sat); the caller wraps it.
func (p *Printer) Script(asserts []*Term) string {
	for _, a := range asserts {
		p.countRefs(a)
	}
	var lines []string
	for _, a := range asserts {
		lines = append(lines, p.ref(a))
	}
	for _, l := range lines {
		fmt.Fprintf(&p.out, "(assert %s)\n", l)
	}
	if p.ruf != nil {
		p.ruf.emitLemmas(p)
	}
	for _, e := range p.extra {
		fmt.Fprintf(&p.out, "(assert %s)\n", e)
	}
	return p.out.String()
}

// DeclaredVars returns names of declared nullary symbols (sorted).
func (p *Printer) DeclaredVars() []string {
	var out []string
	for n := range p.declared {
		out = append(out, n)
	}
	sort.Strings(out)
	return out
}

// CollectVars returns the OVar terms reachable from ts.
func CollectVars(ts []*Term) []*Term {
	seen := map[int]bool{}
	var out []*Term
	var walk func(t *Term)
	walk = func(t *Term) {
		if seen[t.ID] {
			return
		}
		seen[t.ID] = true
		if t.Op == OVar {
			out = append(out, t)
		}
		for _, a := range t.Args {
			walk(a)
		}
	}
	for _, t := range ts {
		walk(t)
	}
	sort.Slice(out, func(i, j int) bool { return out[i].Name < out[j].Name })
	return out
}

// TermSize counts DAG nodes.
func TermSize(ts []*Term) int {
	seen := map[int]bool{}
	var walk func(t *Term)
	walk = func(t *Term) {
		if seen[t.ID] {
			return
		}
		seen[t.ID] = true
		for _, a := range t.Args {
			walk(a)
		}
	}
	for _, t := range ts {
		walk(t)
	}
	return len(seen)
}
