package sx

import (
	"fmt"
	"sort"
	"strings"

	"golang.org/x/tools/go/ssa"
)

// Bounded partial-order checking of a small synchronisation protocol (C14).
//
// vr.ConcRun(n, body) executes body once symbolically in "event mode" from the
// current state: every access to an object that existed at the call (the shared state)
// is logged — atomic loads/stores and mutex operations as synchronisation events, plain
// loads/stores as members of the block between two synchronisation events.  An atomic
// load returns a fresh variable.  Each path through body is one thread trace.  For every
// combination of traces for the n threads an SMT query asks for a schedule (integer
// timestamps of the synchronisation events, reads-from choice of every atomic load,
// mutual exclusion of critical sections, the path conditions of the chosen traces) in
// which two conflicting accesses are not ordered by happens-before — program order plus
// atomic store -> the load that reads it, plus unlock -> later lock, composed over at
// most n-1 cross-thread hops (bounded unrolling, no fixpoint).  unsat = no such schedule.

type concEvent struct {
	Kind string // AL AS L U R W
	Loc  string
	Val  *Term
	Site string
}

type concTrace struct {
	Events []concEvent
	PC     []*Term
}

type concState struct {
	baseline int
	entry    *State
	traces   []concTrace
	local    map[string]bool // thread-local variables (renamed per thread instance)
	init     map[string]*Term
	nLocal   int
}

func (x *Exec) concShared(obj int) bool {
	return x.conc != nil && obj != 0 && obj <= x.conc.baseline
}

func locOf(p *PtrV) string {
	if len(p.Path) > 0 && p.Path[0].Sym == nil {
		return fmt.Sprintf("o%d.%d", p.Obj, p.Path[0].I)
	}
	return fmt.Sprintf("o%d", p.Obj)
}

func (x *Exec) concLog(st *State, kind, loc string, val *Term, site ssa.Instruction) {
	st.events = append(st.events, concEvent{Kind: kind, Loc: loc, Val: val, Site: x.pos(site)})
}

func (x *Exec) concPlain(st *State, kind string, p *PtrV, site ssa.Instruction) {
	if !x.concShared(p.Obj) {
		return
	}
	loc := locOf(p)
	// collapse repeats at the tail
	if n := len(st.events); n > 0 && st.events[n-1].Kind == kind && st.events[n-1].Loc == loc {
		return
	}
	x.concLog(st, kind, loc, nil, site)
}

func concRunIntrinsic(x *Exec, st *State, fr *Frame, args []Value, site ssa.Instruction) []Result {
	n := int(intArg(args[1]))
	body := args[2]
	if x.conc != nil {
		panic(x.fault("nested vr.ConcRun"))
	}
	cs := &concState{baseline: st.nextObj, entry: st.clone(), local: map[string]bool{}, init: map[string]*Term{}}
	x.conc = cs
	run := st.clone()
	run.events = nil
	basePC := run.pc
	baseN := 0
	if basePC != nil {
		baseN = basePC.n
	}
	rs := x.callValue(run, fr, body, nil, site)
	x.conc = nil
	for _, r := range rs {
		var pcs []*Term
		for p := r.St.pc; p != nil && p.n > baseN; p = p.prev {
			pcs = append(pcs, p.t)
		}
		cs.traces = append(cs.traces, concTrace{Events: r.St.events, PC: pcs})
	}
	if len(cs.traces) == 0 {
		panic(x.fault("vr.ConcRun: thread body has no completing path"))
	}
	x.concObligations(st, cs, n, site)
	return ret1(st, nil)
}

// ---- encoding

type cSync struct {
	thread, idx int // idx: position among the thread's sync events
	ev          concEvent
	name        string // timestamp variable
	val         string // SMT text of value (AS) / variable (AL)
}

type cBlock struct {
	thread     int
	prev, next int // indices of surrounding sync events in the thread's list (-1 = none)
	R, W       map[string]bool
	sites      map[string]string
}

func (x *Exec) concObligations(st *State, cs *concState, n int, site ssa.Instruction) {
	// enumerate trace combinations (with repetition; order irrelevant -> non-decreasing tuples)
	m := len(cs.traces)
	var combos [][]int
	var rec func(start int, cur []int)
	rec = func(start int, cur []int) {
		if len(cur) == n {
			combos = append(combos, append([]int(nil), cur...))
			return
		}
		for i := start; i < m; i++ {
			rec(i, append(cur, i))
		}
	}
	rec(0, nil)
	for _, combo := range combos {
		for _, prop := range []string{"race", "stale-read"} {
			script, names, ok := x.concEncode(st, cs, combo, prop)
			if !ok {
				continue
			}
			label := "no data race under any schedule"
			if prop == "stale-read" {
				label = "no query reads the index before the pending updates were applied (happens-before)"
			}
			o := &Obligation{Harness: x.harness, Kind: "conc", Label: label, Site: x.pos(site), PC: st.pcList(), Cond: x.tf.False,
				Inputs: st.inputs[:len(st.inputs):len(st.inputs)], Choices: append(st.choices[:len(st.choices):len(st.choices)], Choice{Name: "traces", Val: int64(comboKey(combo))}),
				RawScript: script, RawNames: names}
			o.negCond = x.tf.True
			x.obls = append(x.obls, o)
		}
	}
	x.notes = appendUnique(x.notes, fmt.Sprintf("vr.ConcRun: %d thread traces, %d threads, %d trace combinations; events per trace: %s", m, n, len(combos), traceSizes(cs)))
}

func comboKey(c []int) int {
	k := 0
	for _, v := range c {
		k = k*16 + v + 1
	}
	return k
}

func traceSizes(cs *concState) string {
	var s []string
	for _, t := range cs.traces {
		s = append(s, fmt.Sprint(len(t.Events)))
	}
	return strings.Join(s, ",")
}

func (x *Exec) concEncode(st *State, cs *concState, combo []int, prop string) (string, []string, bool) {
	var sb strings.Builder
	declared := map[string]bool{}
	var syncs [][]cSync
	var blocks []cBlock
	var names []string
	// harness-level path condition (shared variables, not renamed)
	hp := NewPrinter(x.tf, x.cfg.Dom)
	hp.declared = declared
	hp.DefPrefix = "h"
	sb.WriteString(hp.Script(st.pcList()))
	initTxt := map[string]string{}
	for t, ti := range combo {
		tr := cs.traces[ti]
		p := NewPrinter(x.tf, x.cfg.Dom)
		p.declared = declared
		p.DefPrefix = fmt.Sprintf("T%d", t)
		p.VarSuffix = func(name string) string {
			if cs.local[name] {
				return fmt.Sprintf("%s@T%d", name, t)
			}
			return name
		}
		// path condition of the trace
		for _, a := range tr.PC {
			p.countRefs(a)
		}
		for _, e := range tr.Events {
			if e.Val != nil {
				p.countRefs(e.Val)
			}
		}
		var lines []string
		for _, a := range tr.PC {
			lines = append(lines, p.ref(a))
		}
		var list []cSync
		cur := cBlock{thread: t, prev: -1, next: -1, R: map[string]bool{}, W: map[string]bool{}, sites: map[string]string{}}
		flush := func(next int) {
			cur.next = next
			if len(cur.R)+len(cur.W) > 0 {
				blocks = append(blocks, cur)
			}
			cur = cBlock{thread: t, prev: next, next: -1, R: map[string]bool{}, W: map[string]bool{}, sites: map[string]string{}}
		}
		for _, e := range tr.Events {
			switch e.Kind {
			case "R":
				cur.R[e.Loc] = true
				cur.sites[e.Loc] = e.Site
			case "W":
				cur.W[e.Loc] = true
				cur.sites[e.Loc] = e.Site
			default:
				s := cSync{thread: t, idx: len(list), ev: e, name: fmt.Sprintf("ts_T%d_%d", t, len(list))}
				if e.Val != nil {
					s.val = p.ref(e.Val)
				}
				flush(len(list))
				list = append(list, s)
				names = append(names, s.name)
			}
		}
		flush(-1)
		// fix: the block after the last sync event has prev = last index
		sb.WriteString(p.out.String())
		for _, l := range lines {
			fmt.Fprintf(&sb, "(assert %s)\n", l)
		}
		syncs = append(syncs, list)
		for _, s := range list {
			if s.ev.Kind == "AL" || s.ev.Kind == "AS" {
				if _, ok := initTxt[s.ev.Loc]; !ok {
					iv := cs.init[s.ev.Loc]
					ip := NewPrinter(x.tf, x.cfg.Dom)
					ip.declared = declared
					ip.DefPrefix = "I"
					ip.countRefs(iv)
					txt := ip.ref(iv)
					sb.WriteString(ip.out.String())
					initTxt[s.ev.Loc] = txt
				}
			}
		}
	}
	// timestamps
	var all []cSync
	for _, l := range syncs {
		all = append(all, l...)
	}
	for _, s := range all {
		fmt.Fprintf(&sb, "(declare-fun %s () Int)\n", s.name)
	}
	if len(all) > 1 {
		sb.WriteString("(assert (distinct")
		for _, s := range all {
			sb.WriteString(" " + s.name)
		}
		sb.WriteString("))\n")
	}
	for _, l := range syncs {
		for i := 1; i < len(l); i++ {
			fmt.Fprintf(&sb, "(assert (< %s %s))\n", l[i-1].name, l[i].name)
		}
	}
	// mutual exclusion: critical sections (L..next U on the same mutex in the same thread)
	type cs2 struct{ l, u cSync }
	var crit []cs2
	for _, l := range syncs {
		for i, s := range l {
			if s.ev.Kind != "L" {
				continue
			}
			for j := i + 1; j < len(l); j++ {
				if l[j].ev.Kind == "U" && l[j].ev.Loc == s.ev.Loc {
					crit = append(crit, cs2{s, l[j]})
					break
				}
			}
		}
	}
	for i := 0; i < len(crit); i++ {
		for j := i + 1; j < len(crit); j++ {
			a, b := crit[i], crit[j]
			if a.l.thread == b.l.thread || a.l.ev.Loc != b.l.ev.Loc {
				continue
			}
			fmt.Fprintf(&sb, "(assert (or (< %s %s) (< %s %s)))\n", a.u.name, b.l.name, b.u.name, a.l.name)
		}
	}
	// reads-from for atomic loads
	rfName := func(a, s cSync) string { return fmt.Sprintf("rf_%s_%s", a.name, s.name) }
	for _, a := range all {
		if a.ev.Kind != "AL" {
			continue
		}
		var stores []cSync
		for _, s := range all {
			if s.ev.Kind == "AS" && s.ev.Loc == a.ev.Loc {
				stores = append(stores, s)
			}
		}
		var opts []string
		// init
		var noStoreBefore []string
		for _, s := range stores {
			noStoreBefore = append(noStoreBefore, fmt.Sprintf("(> %s %s)", s.name, a.name))
		}
		ini := fmt.Sprintf("rfinit_%s", a.name)
		fmt.Fprintf(&sb, "(declare-fun %s () Bool)\n", ini)
		fmt.Fprintf(&sb, "(assert (=> %s (and true %s (= %s %s))))\n", ini, strings.Join(noStoreBefore, " "), a.val, initTxt[a.ev.Loc])
		opts = append(opts, ini)
		for _, s := range stores {
			rn := rfName(a, s)
			fmt.Fprintf(&sb, "(declare-fun %s () Bool)\n", rn)
			var between []string
			for _, s2 := range stores {
				if s2.name == s.name {
					continue
				}
				between = append(between, fmt.Sprintf("(or (< %s %s) (> %s %s))", s2.name, s.name, s2.name, a.name))
			}
			fmt.Fprintf(&sb, "(assert (=> %s (and (< %s %s) %s (= %s %s))))\n", rn, s.name, a.name, strings.Join(append(between, "true"), " "), a.val, s.val)
			opts = append(opts, rn)
		}
		fmt.Fprintf(&sb, "(assert (or %s))\n", strings.Join(opts, " "))
	}
	// synchronises-with edges
	type swEdge struct {
		from, to cSync
		cond     string
	}
	var sws []swEdge
	for _, a := range all {
		if a.ev.Kind == "AL" {
			for _, s := range all {
				if s.ev.Kind == "AS" && s.ev.Loc == a.ev.Loc && s.thread != a.thread {
					sws = append(sws, swEdge{s, a, rfName(a, s)})
				}
			}
		}
		if a.ev.Kind == "L" {
			for _, u := range all {
				if u.ev.Kind == "U" && u.ev.Loc == a.ev.Loc && u.thread != a.thread {
					sws = append(sws, swEdge{u, a, fmt.Sprintf("(< %s %s)", u.name, a.name)})
				}
			}
		}
	}
	poLE := func(a, b cSync) bool { return a.thread == b.thread && a.idx <= b.idx }
	// hb(a,b) between sync events with up to maxHops cross-thread hops
	maxHops := len(combo) - 1
	var hb func(a, b cSync, hops int) string
	hb = func(a, b cSync, hops int) string {
		if a.thread == b.thread {
			if a.idx < b.idx {
				return "true"
			}
			if hops == 0 {
				return "false"
			}
		}
		if hops == 0 {
			return "false"
		}
		var ds []string
		for _, e := range sws {
			if !poLE(a, e.from) {
				continue
			}
			// e.to then (po or further hops) to b
			if poLE(e.to, b) {
				ds = append(ds, e.cond)
			} else if hops > 1 {
				rest := hb(e.to, b, hops-1)
				if rest != "false" {
					ds = append(ds, fmt.Sprintf("(and %s %s)", e.cond, rest))
				}
			}
		}
		if len(ds) == 0 {
			return "false"
		}
		return "(or " + strings.Join(ds, " ") + ")"
	}
	blockHB := func(b1, b2 cBlock) string {
		if b1.thread == b2.thread {
			return "true"
		}
		if b1.next < 0 || b2.prev < 0 {
			return "false"
		}
		return hb(syncs[b1.thread][b1.next], syncs[b2.thread][b2.prev], maxHops)
	}
	var viol []string
	switch prop {
	case "race":
		for i := 0; i < len(blocks); i++ {
			for j := i + 1; j < len(blocks); j++ {
				b1, b2 := blocks[i], blocks[j]
				if b1.thread == b2.thread {
					continue
				}
				conflict := false
				for l := range b1.W {
					if b2.W[l] || b2.R[l] {
						conflict = true
					}
				}
				for l := range b2.W {
					if b1.R[l] {
						conflict = true
					}
				}
				if !conflict {
					continue
				}
				viol = append(viol, fmt.Sprintf("(and (not %s) (not %s))", blockHB(b1, b2), blockHB(b2, b1)))
			}
		}
		// mixed atomic / plain accesses to one location
		for _, s := range all {
			if s.ev.Kind != "AL" && s.ev.Kind != "AS" {
				continue
			}
			for _, b := range blocks {
				if b.thread == s.thread {
					continue
				}
				if !(b.W[s.ev.Loc] || (b.R[s.ev.Loc] && s.ev.Kind == "AS")) {
					continue
				}
				before, after := "false", "false"
				if b.next >= 0 {
					n := syncs[b.thread][b.next]
					if n.name == s.name {
						before = "true"
					} else {
						before = hb(n, s, maxHops)
					}
				}
				if b.prev >= 0 {
					after = hb(s, syncs[b.thread][b.prev], maxHops)
				}
				viol = append(viol, fmt.Sprintf("(and (not %s) (not %s))", before, after))
			}
		}
	case "stale-read":
		// locations written by the update (blocks inside a critical section that write) and read by a final block
		var writers []cBlock
		for _, b := range blocks {
			if len(b.W) > 0 {
				writers = append(writers, b)
			}
		}
		for t := range combo {
			// final block of thread t
			var fin *cBlock
			for i := range blocks {
				if blocks[i].thread == t && blocks[i].next < 0 {
					fin = &blocks[i]
				}
			}
			if fin == nil {
				continue
			}
			for l := range fin.R {
				var ws []cBlock
				for _, w := range writers {
					if w.W[l] {
						ws = append(ws, w)
					}
				}
				if len(ws) == 0 {
					continue
				}
				// some writer exists in this combination: the read must be ordered after at least one of them
				var ord []string
				for _, w := range ws {
					ord = append(ord, blockHB(w, *fin))
				}
				viol = append(viol, fmt.Sprintf("(not (or %s))", strings.Join(ord, " ")))
			}
		}
	}
	if len(viol) == 0 {
		return "", nil, false
	}
	sort.Strings(viol)
	fmt.Fprintf(&sb, "(assert (or %s))\n", strings.Join(viol, "\n  "))
	return sb.String(), names, true
}
