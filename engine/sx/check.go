package sx

import (
	"crypto/sha1"
	"encoding/json"
	"fmt"
	"os"
	"path/filepath"
	"sort"
	"strings"
	"sync"
	"time"

	"golang.org/x/tools/go/ssa"
)

type group struct {
	key   string
	obls  []*Obligation
	first *Obligation
}

// Check runs all harnesses of a property and returns the process exit code.
func Check(opt Options) int {
	t0 := time.Now()
	l, err := Load(opt.Repo, filepath.Join(opt.Verif, "harness"))
	if err != nil {
		fmt.Println("ENGINE-FAULT load:", err)
		return 2
	}
	loadSecs := time.Since(t0).Seconds()
	r := NewRunner(l, opt)
	defer r.Cleanup()
	hs := l.Harnesses(opt.Property)
	var sel []*ssa.Function
	for _, h := range hs {
		if opt.Only != "" && !strings.Contains(h.Name(), opt.Only) {
			continue
		}
		if strings.HasSuffix(h.Name(), "_thorough") && opt.Tier != "thorough" {
			continue
		}
		sel = append(sel, h)
	}
	if len(sel) == 0 {
		fmt.Printf("ENGINE-FAULT no harness for property %s\n", opt.Property)
		return 2
	}
	reports := make([]*HarnessReport, len(sel))
	jobs := make(chan int, len(sel))
	for i := range sel {
		jobs <- i
	}
	close(jobs)
	nw := opt.Workers
	if nw > len(sel) {
		nw = len(sel)
	}
	var wg sync.WaitGroup
	for w := 0; w < nw; w++ {
		wg.Add(1)
		go func() {
			defer wg.Done()
			var x *Exec
			var base *State
			for i := range jobs {
				if x == nil {
					x = r.newExec()
					func() {
						defer func() {
							if e := recover(); e != nil {
								reports[i] = &HarnessReport{Name: sel[i].Name(), Fault: fmt.Sprintf("init failed: %v", e)}
								x = nil
							}
						}()
						base = x.initState(l)
					}()
					if x == nil {
						continue
					}
				}
				rep := r.RunHarness(x, base, sel[i])
				rep.UFs = map[string]int{}
				rep.Lemmas = map[string]int{}
				rep.tf = x.tf
				reports[i] = rep
				r.dischargeAll(x.tf, x.cfg.Dom, rep)
				if opt.Verbose {
					fmt.Printf("  harness %s: paths=%d obls=%d exec=%.1fs fault=%q\n", rep.Name, rep.Paths, len(rep.Obls), rep.ExecSecs, rep.Fault)
				}
			}
		}()
	}
	wg.Wait()
	return r.finish(opt, sel, reports, t0, loadSecs)
}

func choiceSig(cs []Choice) string {
	var sb strings.Builder
	for _, c := range cs {
		fmt.Fprintf(&sb, "%s=%d;", c.Name, c.Val)
	}
	return sb.String()
}

// dischargeAll groups the obligations of a harness by (kind,label,site,choices) and
// decides each group with one query: OR over paths of (path condition ∧ ¬claim).
func (r *Runner) dischargeAll(tf *TF, dom Domain, rep *HarnessReport) {
	type grp struct {
		first *Obligation
		all   []*Obligation
	}
	groups := map[string]*grp{}
	var order []string
	for _, o := range rep.Obls {
		if o.Folded || o.Kind == "reach" {
			continue
		}
		k := o.Kind + "|" + o.Label + "|" + o.Site + "|" + choiceSig(o.Choices)
		g := groups[k]
		if g == nil {
			g = &grp{first: o}
			groups[k] = g
			order = append(order, k)
		}
		g.all = append(g.all, o)
	}
	var combined []*Obligation
	for _, k := range order {
		g := groups[k]
		chunk := (len(g.all) + 63) / 64
		if chunk > 400 {
			chunk = 400
		}
		for i := 0; i < len(g.all); i += chunk {
			j := i + chunk
			if j > len(g.all) {
				j = len(g.all)
			}
			part := g.all[i:j]
			if len(part) == 1 {
				o := part[0]
				o.negCond = tf.Not(o.Cond)
				combined = append(combined, o)
				continue
			}
			var disj []*Term
			seenIn := map[int]bool{}
			var inputs []*Term
			for _, o := range part {
				o.negCond = tf.Not(o.Cond)
				cs := append(append([]*Term(nil), o.PC...), o.negCond)
				disj = append(disj, tf.And(cs...))
				for _, in := range o.Inputs {
					if !seenIn[in.ID] {
						seenIn[in.ID] = true
						inputs = append(inputs, in)
					}
				}
			}
			c := &Obligation{Harness: g.first.Harness, Kind: g.first.Kind, Label: g.first.Label, Site: g.first.Site, Choices: g.first.Choices,
				Inputs: inputs, Cond: tf.False, negCond: tf.Or(disj...), members: part, First: g.first.First}
			combined = append(combined, c)
		}
	}
	var wg sync.WaitGroup
	for _, o := range combined {
		wg.Add(1)
		go func(o *Obligation) {
			defer wg.Done()
			r.discharge(tf, dom, o, rep)
			if len(o.members) > 1 && o.Status != "sat" && o.Status != "unsat" {
				// inconclusive group query: fall back to one query per path
				for _, c := range o.members {
					r.discharge(tf, dom, c, rep)
				}
				return
			}
			for _, m := range o.members {
				m.Status, m.Solver, m.Detail, m.Size = o.Status, o.Solver, o.Detail, o.Size
				if o.Status == "sat" {
					m.Status = "sat-in-group"
				}
			}
			if len(o.members) > 0 {
				m := o.members[0]
				m.Secs = o.Secs
				if o.Status == "sat" {
					// find a member path that is satisfiable on its own (its trace/choices drive the replay)
					found := false
					for _, c := range o.members {
						r.discharge(tf, dom, c, rep)
						if c.Status == "sat" {
							found = true
							break
						}
						c.Status = "sat-in-group"
					}
					if !found {
						m.Status = "error"
						m.Detail = "group query sat but no member path sat"
					}
				}
			}
		}(o)
	}
	wg.Wait()
	reachDone := map[string]bool{}
	for _, o := range rep.Obls {
		if o.Kind != "reach" {
			continue
		}
		if reachDone[o.Label] {
			o.Status = "skipped"
			continue
		}
		if len(o.PC) == 0 {
			o.Status = "sat"
			reachDone[o.Label] = true
			continue
		}
		r.discharge(tf, dom, o, rep)
		if o.Status == "sat" {
			reachDone[o.Label] = true
		}
	}
}

type sampleObl struct {
	Harness string  `json:"harness"`
	Kind    string  `json:"kind"`
	Label   string  `json:"label"`
	Site    string  `json:"site"`
	Domain  string  `json:"domain"`
	Result  string  `json:"result"`
	Solver  string  `json:"solver,omitempty"`
	Secs    float64 `json:"secs"`
	Nodes   int     `json:"formula_nodes"`
	Paths   int     `json:"paths_with_this_obligation"`
}

func (r *Runner) finish(opt Options, sel []*ssa.Function, reports []*HarnessReport, t0 time.Time, loadSecs float64) int {
	prop := opt.Property
	exit := 0
	faults := 0
	var violations, knownLines, unconfirmed []string
	totalObl, discharged, folded, queries, nontrivial := 0, 0, 0, 0, 0
	states, transitions := 0, 0
	solverSecs := 0.0
	var samples []sampleObl
	funcs := map[string]int{}
	stubs := map[string]bool{}
	assumes := map[string]bool{}
	notes := map[string]bool{}
	ufs := map[string]int{}
	lemmas := map[string]int{}
	vacuity := 0
	unwinds := 0
	doms := map[string]bool{}
	replays := 0
	refined := 0
	distinct := map[string]bool{}
	for _, rep := range reports {
		if rep == nil {
			continue
		}
		doms[rep.Dom] = true
		states += rep.Paths
		transitions += rep.Branches
		for k, v := range rep.Funcs {
			if !strings.Contains(k, "Harness_") && !strings.Contains(k, "vrstub_") && !strings.Contains(k, ".vr") {
				funcs[k] = v
			}
		}
		for _, s := range rep.Stubs {
			stubs[s] = true
		}
		for _, s := range rep.Assumes {
			assumes[s] = true
		}
		for _, s := range rep.Notes {
			notes[s] = true
		}
		for k, v := range rep.UFs {
			ufs[k] += v
		}
		for k, v := range rep.Lemmas {
			lemmas[k] += v
		}
		if rep.Fault != "" {
			fmt.Printf("ENGINE-FAULT harness=%s %s\n", rep.Name, rep.Fault)
			faults++
		}
		// group obligations by (kind,label,site)
		groups := map[string]*group{}
		var order []string
		reachOK := map[string]bool{}
		reachSeen := map[string]bool{}
		for _, o := range rep.Obls {
			if o.Kind == "reach" {
				reachSeen[o.Label] = true
				if o.Status == "sat" {
					reachOK[o.Label] = true
				}
				if o.Status != "skipped" {
					queries++
					solverSecs += o.Secs
				}
				continue
			}
			totalObl++
			k := o.Kind + "|" + o.Label + "|" + o.Site
			g := groups[k]
			if g == nil {
				g = &group{key: k}
				groups[k] = g
				order = append(order, k)
			}
			g.obls = append(g.obls, o)
			if o.Folded {
				folded++
				discharged++
				continue
			}
			queries++
			nontrivial++
			solverSecs += o.Secs
			distinct[rep.Name+"|"+k] = true
			switch o.Status {
			case "unsat":
				discharged++
			}
		}
		for l := range reachSeen {
			if reachOK[l] {
				vacuity++
			} else if rep.Fault == "" {
				fmt.Printf("ENGINE-FAULT harness=%s vacuity witness %q is unreachable\n", rep.Name, l)
				faults++
			}
		}
		if len(reachSeen) == 0 && rep.Fault == "" {
			fmt.Printf("ENGINE-FAULT harness=%s has no reachability witness (vr.Reach)\n", rep.Name)
			faults++
		}
		for _, k := range order {
			g := groups[k]
			var sat []*Obligation
			var inconclusive []*Obligation
			res := "unsat"
			var secs float64
			solver := ""
			nodes := 0
			allFolded := true
			for _, o := range g.obls {
				secs += o.Secs
				if o.Size > nodes {
					nodes = o.Size
				}
				if !o.Folded {
					allFolded = false
				}
				if o.Solver != "" {
					solver = o.Solver
				}
				switch {
				case o.Status == "sat-in-group":
				case o.Status == "sat" || o.Status == "folded-false" || (o.Cond.IsFalse() && o.Kind != "unwind" && o.Status == ""):
					sat = append(sat, o)
				case o.Status == "unknown" || o.Status == "error":
					if res != "sat" {
						res = o.Status
					}
					inconclusive = append(inconclusive, o)
				}
			}
			first := g.obls[0]
			if len(inconclusive) > 0 {
				// The solver could not decide this obligation. Before reporting it as inconclusive, run the
				// harness natively once with default inputs: harnesses may carry a concrete witness family
				// (executed only natively) under the same assertion label; if that fails, the property is
				// violated on a concrete input even though the symbolic query was undecided.
				o := inconclusive[0]
				saved := o.Model
				o.Model = map[string]string{}
				path, out, err := r.replayObl(prop, rep, o)
				o.Model = saved
				replays++
				handled := false
				if err == nil {
					if c := confirmOutcome(o, out); c != "" {
						o.Confirmed, o.Replay = c, path
						handled = true
						if k := r.matchKnown(prop, o); k != nil {
							knownLines = append(knownLines, fmt.Sprintf("KNOWN-FINDING: property=%s %s [harness=%s label=%q site=%s]", prop, k.What, rep.Name, first.Label, first.Site))
						} else {
							violations = append(violations, fmt.Sprintf("VIOLATION property=%s replay=%s harness=%s kind=%s label=%q site=%s (solver inconclusive on the symbolic obligation; the harness's native witness inputs violate it: %s)", prop, path, rep.Name, first.Kind, first.Label, first.Site, c))
						}
					}
				}
				if !handled {
					for _, o := range inconclusive {
						fmt.Printf("ENGINE-FAULT harness=%s obligation %q at %s [%s]: solver result %s %s (%.0fs)\n", rep.Name, o.Label, o.Site, choiceSig(o.Choices), o.Status, o.Detail, o.Secs)
						faults++
					}
				}
			}
			if first.Kind == "unwind" && len(sat) > 0 {
				// the path beyond the unwinding bound is feasible: either the loop really does not
				// terminate (native replay hangs or crashes: violation) or the bound is too small (inconclusive)
				o := sat[0]
				path, out, err := r.replayObl(prop, rep, o)
				replays++
				if err == nil {
					if c := confirmOutcome(o, out); c != "" {
						o.Confirmed, o.Replay = c, path
						if k := r.matchKnown(prop, o); k != nil {
							knownLines = append(knownLines, fmt.Sprintf("KNOWN-FINDING: property=%s %s [harness=%s label=%q site=%s]", prop, k.What, rep.Name, first.Label, first.Site))
						} else {
							violations = append(violations, fmt.Sprintf("VIOLATION property=%s replay=%s harness=%s kind=%s label=%q site=%s (%s)", prop, path, rep.Name, first.Kind, first.Label, first.Site, c))
						}
						continue
					}
				}
				unwinds++
				fmt.Printf("ENGINE-FAULT harness=%s UNWIND %s at %s (native run terminates: bound too small)\n", rep.Name, o.Label, o.Site)
				faults++
				continue
			}
			if allFolded {
				res = "folded"
			}
			if len(sat) > 0 {
				res = "sat"
				// replay up to 3 models
				confirmed := ""
				var rpath string
				for i, o := range sat {
					if i >= 3 {
						break
					}
					path, out, err := r.replayObl(prop, rep, o)
					replays++
					if err != nil {
						fmt.Printf("ENGINE-FAULT replay of %s failed: %v\n", o.Label, err)
						faults++
						continue
					}
					if c := confirmOutcome(o, out); c != "" {
						confirmed = c
						rpath = path
						o.Confirmed = c
						o.Replay = path
						break
					} else {
						o.Replay = path
						if opt.Verbose {
							fmt.Printf("  replay of %s/%s not confirmed; output:\n%s\n", rep.Name, o.Label, tail(out, 25))
						}
					}
				}
				if confirmed == "" && rep.Dom == "RUF" {
					// abstract counterexample did not concretise: decide the same obligation in exact IEEE arithmetic
					for i, o := range sat {
						if i >= 2 {
							break
						}
						st, model := r.refineFPX(rep.tf, o)
						refined++
						switch st {
						case "unsat":
							o.Status = "unsat(FPX)"
						case "sat":
							o.Model = model
							rep.Dom = "FPX"
							path, out, err := r.replayObl(prop, rep, o)
							rep.Dom = "RUF"
							replays++
							if err == nil {
								if c := confirmOutcome(o, out); c != "" {
									confirmed, rpath = c+" [model from exact FPX re-encoding of the RUF counterexample path]", path
									o.Confirmed, o.Replay = c, path
								}
							}
						}
						if confirmed != "" {
							break
						}
					}
					allUnsat := true
					for _, o := range sat {
						if o.Status != "unsat(FPX)" {
							allUnsat = false
						}
					}
					if confirmed == "" && allUnsat {
						// every abstract counterexample path is infeasible in exact arithmetic
						discharged += len(sat)
						res = "unsat(FPX after spurious RUF model)"
						if len(samples) < 400 {
							samples = append(samples, sampleObl{Harness: rep.Name, Kind: first.Kind, Label: first.Label, Site: first.Site, Domain: "RUF→FPX", Result: res, Solver: solver, Secs: round3(secs), Nodes: nodes, Paths: len(g.obls)})
						}
						continue
					}
				}
				if confirmed != "" {
					if k := r.matchKnown(prop, sat[0]); k != nil {
						knownLines = append(knownLines, fmt.Sprintf("KNOWN-FINDING: property=%s %s [harness=%s label=%q site=%s]", prop, k.What, rep.Name, first.Label, first.Site))
					} else {
						violations = append(violations, fmt.Sprintf("VIOLATION property=%s replay=%s harness=%s kind=%s label=%q site=%s (%s)", prop, rpath, rep.Name, first.Kind, first.Label, first.Site, confirmed))
					}
				} else {
					unconfirmed = append(unconfirmed, fmt.Sprintf("UNCONFIRMED property=%s harness=%s kind=%s label=%q site=%s replay=%s", prop, rep.Name, first.Kind, first.Label, first.Site, sat[0].Replay))
				}
			}
			if len(samples) < 400 {
				samples = append(samples, sampleObl{Harness: rep.Name, Kind: first.Kind, Label: first.Label, Site: first.Site, Domain: rep.Dom, Result: res, Solver: solver, Secs: round3(secs), Nodes: nodes, Paths: len(g.obls)})
			}
		}
	}
	for _, l := range knownLines {
		fmt.Println(l)
	}
	for _, l := range unconfirmed {
		fmt.Println(l)
	}
	for _, l := range violations {
		fmt.Println(l)
	}
	if len(violations) > 0 {
		exit = 1
	} else if faults > 0 {
		exit = 2
	}
	// evidence
	var fl []string
	for k, v := range funcs {
		fl = append(fl, fmt.Sprintf("%s (%d SSA instrs)", k, v))
	}
	sort.Strings(fl)
	var hn []string
	for _, s := range sel {
		hn = append(hn, s.Name())
	}
	var dl []string
	for d := range doms {
		dl = append(dl, d)
	}
	sort.Strings(dl)
	ev := map[string]interface{}{
		"property_id": prop,
		"tier":        opt.Tier,
		"seed":        opt.Seed,
		"level":       "model_checking",
		"wall_s":      round3(time.Since(t0).Seconds()),
		"violations":  len(violations),
		"assumptions": append(keys(assumes), keys(notes)...),
		"coverage": map[string]interface{}{
			"states":                        max1(states),
			"transitions":                   max1(transitions),
			"traces_validated_against_impl": replays,
			"samples":                       samples,
			"obligations":                   totalObl,
			"discharged":                    discharged,
			"folded_by_constant_propagation": folded,
			"evaluations":                   queries,
			"distinct_nontrivial":           len(distinct),
			"rule":                          "one evaluation = one solver query (path condition ∧ ¬claim) produced by symbolic execution of the harness and the real golang/geo functions it calls; distinct_nontrivial counts distinct (harness, kind, label, site) obligations whose formula did not constant-fold; states = completed symbolic paths, transitions = symbolic branch decisions; traces_validated_against_impl = native replays executed for sat models",
			"harnesses":                     hn,
			"functions_encoded":             fl,
			"domains":                       dl,
			"solver_time_s":                 round3(solverSecs),
			"solver_stats":                  r.Pool.Stats,
			"load_and_ssa_build_s":          round3(loadSecs),
			"vacuity_witnesses_sat":         vacuity,
			"unwinding_failures":            unwinds,
			"unconfirmed":                   len(unconfirmed),
			"ruf_counterexamples_rechecked_in_fpx": refined,
			"known_findings":                len(knownLines),
			"engine_faults":                 faults,
			"stubs_used":                    keys(stubs),
			"uninterpreted_symbols":         ufs,
			"lemma_instances":               lemmas,
			"checker_cmd":                   fmt.Sprintf("./bin/gosmt check -property %s -tier %s", prop, opt.Tier),
			"trusted_base":                  []string{"go/ssa translation (x/tools v0.29.0)", "gosmt executor and SMT-LIB printer", "z3 4.8.12 / z3 5.1.0 / cvc5 1.0.3", "stubs and lemma schemas listed under assumptions"},
			"explanation":                   "bounded symbolic execution of the real code regenerated from /repo on this run; unsat = claim holds for every input within the stated bounds",
		},
	}
	os.MkdirAll(filepath.Join(opt.Verif, "evidence"), 0755)
	data, _ := json.MarshalIndent(ev, "", " ")
	if err := os.WriteFile(filepath.Join(opt.Verif, "evidence", prop+".json"), data, 0644); err != nil {
		fmt.Println("ENGINE-FAULT cannot write evidence:", err)
		exit = 2
	}
	fmt.Printf("SUMMARY property=%s tier=%s harnesses=%d paths=%d obligations=%d discharged=%d (folded %d) queries=%d violations=%d known=%d unconfirmed=%d faults=%d solver_s=%.1f wall_s=%.1f\n",
		prop, opt.Tier, len(sel), states, totalObl, discharged, folded, queries, len(violations), len(knownLines), len(unconfirmed), faults, solverSecs, time.Since(t0).Seconds())
	return exit
}

func tail(s string, n int) string {
	ls := strings.Split(strings.TrimRight(s, "\n"), "\n")
	if len(ls) > n {
		ls = ls[len(ls)-n:]
	}
	return strings.Join(ls, "\n")
}

func max1(n int) int {
	if n < 1 {
		return 1
	}
	return n
}

func round3(f float64) float64 { return float64(int64(f*1000+0.5)) / 1000 }

func keys(m map[string]bool) []string {
	out := []string{}
	for k := range m {
		out = append(out, k)
	}
	sort.Strings(out)
	return out
}

func (r *Runner) replayObl(prop string, rep *HarnessReport, o *Obligation) (string, string, error) {
	dom := DomNone
	switch rep.Dom {
	case "FPX":
		dom = DomFPX
	case "RUF":
		dom = DomRUF
	}
	rf := &ReplayFile{Property: prop, Harness: rep.Name, Package: rep.Pkg, Kind: o.Kind, Label: o.Label, Site: o.Site, Domain: rep.Dom,
		Vars: modelToVars(o, dom), Choices: map[string]int64{}, Solver: o.Solver}
	if len(o.Trace) > 0 {
		rf.Stream = buildStream(o.Trace, rf.Vars)
	}
	if o.RawScript != "" {
		for k, v := range o.Model {
			rf.Vars["schedule:"+k] = v
		}
	}
	for _, c := range o.Choices {
		rf.Choices[c.Name] = c.Val
	}
	data, _ := json.MarshalIndent(rf, "", " ")
	h := sha1.Sum(data)
	dir := filepath.Join(r.Opt.Verif, "replays", prop)
	os.MkdirAll(dir, 0755)
	path := filepath.Join(dir, fmt.Sprintf("%s-%x.json", rep.Name, h[:5]))
	if err := os.WriteFile(path, data, 0644); err != nil {
		return "", "", err
	}
	out, err := r.RunReplay(rf, path)
	return path, out, err
}

// Replay re-runs a stored replay file against the current tree.
func Replay(opt Options, path string) int {
	data, err := os.ReadFile(path)
	if err != nil {
		fmt.Println("cannot read", path, err)
		return 2
	}
	var rf ReplayFile
	if err := json.Unmarshal(data, &rf); err != nil {
		fmt.Println("bad replay file:", err)
		return 2
	}
	ov, hp, err := BuildOverlay(opt.Repo, filepath.Join(opt.Verif, "harness"))
	if err != nil {
		fmt.Println(err)
		return 2
	}
	// replay needs the list of harness functions per package: load (cheap enough)
	l, err := Load(opt.Repo, filepath.Join(opt.Verif, "harness"))
	if err != nil {
		fmt.Println("ENGINE-FAULT load:", err)
		return 2
	}
	_ = ov
	_ = hp
	r := NewRunner(l, opt)
	defer r.Cleanup()
	abs, _ := filepath.Abs(path)
	out, err := r.RunReplay(&rf, abs)
	if err != nil {
		fmt.Println(err)
		return 2
	}
	fmt.Print(out)
	o := &Obligation{Kind: rf.Kind, Label: rf.Label, Site: rf.Site}
	if c := confirmOutcome(o, out); c != "" {
		fmt.Printf("REPRODUCED property=%s harness=%s label=%q: %s\n", rf.Property, rf.Harness, rf.Label, c)
		return 1
	}
	fmt.Printf("NOT-REPRODUCED property=%s harness=%s label=%q\n", rf.Property, rf.Harness, rf.Label)
	return 0
}
