package sx

import (
	"fmt"
	"go/types"
	"os"
	"path/filepath"
	"sort"
	"strings"

	"golang.org/x/tools/go/packages"
	"golang.org/x/tools/go/ssa"
	"golang.org/x/tools/go/ssa/ssautil"
)

const ModulePath = "github.com/golang/geo"

type Loaded struct {
	Prog     *ssa.Program
	Pkgs     map[string]*ssa.Package // by import path
	Overlay  map[string][]byte       // virtual path -> content
	RepoDir  string
	HarnDir  string
	HarnPkgs []string // import paths that contain harness files
	RepoHead string
}

func goEnv() []string {
	env := os.Environ()
	var out []string
	for _, e := range env {
		if strings.HasPrefix(e, "GOFLAGS=") || strings.HasPrefix(e, "GOPROXY=") || strings.HasPrefix(e, "GOSUMDB=") || strings.HasPrefix(e, "GOTOOLCHAIN=") {
			continue
		}
		out = append(out, e)
	}
	return append(out, "GOFLAGS=-mod=readonly", "GOPROXY=off", "GOSUMDB=off", "GOTOOLCHAIN=local")
}

// BuildOverlay maps harness sources into the package directories of the repo.
func BuildOverlay(repo, harn string) (map[string][]byte, []string, error) {
	ov := map[string][]byte{}
	tmpl, err := os.ReadFile(filepath.Join(harn, "rt", "rt.go.tmpl"))
	if err != nil {
		return nil, nil, err
	}
	var pkgs []string
	err = filepath.Walk(harn, func(p string, info os.FileInfo, err error) error {
		if err != nil {
			return err
		}
		if info.IsDir() || !strings.HasPrefix(info.Name(), "zz_verif_") || !strings.HasSuffix(info.Name(), ".go") {
			return nil
		}
		rel, _ := filepath.Rel(harn, filepath.Dir(p))
		data, err := os.ReadFile(p)
		if err != nil {
			return err
		}
		ov[filepath.Join(repo, rel, info.Name())] = data
		rt := filepath.Join(repo, rel, "zz_verif_rt.go")
		if _, ok := ov[rt]; !ok {
			pkgName := filepath.Base(rel)
			ov[rt] = []byte(strings.Replace(string(tmpl), "PKGNAME", pkgName, 1))
			pkgs = append(pkgs, ModulePath+"/"+filepath.ToSlash(rel))
		}
		return nil
	})
	sort.Strings(pkgs)
	return ov, pkgs, err
}

func Load(repo, harn string) (*Loaded, error) {
	ov, hp, err := BuildOverlay(repo, harn)
	if err != nil {
		return nil, err
	}
	cfg := &packages.Config{
		Mode:    packages.LoadAllSyntax,
		Dir:     repo,
		Env:     goEnv(),
		Overlay: ov,
	}
	pats := []string{ModulePath + "/r1", ModulePath + "/r2", ModulePath + "/r3", ModulePath + "/s1", ModulePath + "/s2", ModulePath + "/s2/s2intersect"}
	pkgs, err := packages.Load(cfg, pats...)
	if err != nil {
		return nil, err
	}
	var errs []string
	packages.Visit(pkgs, nil, func(p *packages.Package) {
		for _, e := range p.Errors {
			errs = append(errs, e.Error())
		}
	})
	if len(errs) > 0 {
		if len(errs) > 20 {
			errs = errs[:20]
		}
		return nil, fmt.Errorf("package load errors:\n%s", strings.Join(errs, "\n"))
	}
	prog, spkgs := ssautil.AllPackages(pkgs, ssa.InstantiateGenerics)
	prog.Build()
	l := &Loaded{Prog: prog, Pkgs: map[string]*ssa.Package{}, Overlay: ov, RepoDir: repo, HarnDir: harn, HarnPkgs: hp}
	for _, sp := range spkgs {
		if sp != nil {
			l.Pkgs[sp.Pkg.Path()] = sp
		}
	}
	for _, p := range prog.AllPackages() {
		if _, ok := l.Pkgs[p.Pkg.Path()]; !ok {
			l.Pkgs[p.Pkg.Path()] = p
		}
	}
	return l, nil
}

// Harnesses lists harness functions for a property (prefix Harness_<id>_), sorted.
func (l *Loaded) Harnesses(prop string) []*ssa.Function {
	var out []*ssa.Function
	for _, pp := range l.HarnPkgs {
		sp := l.Pkgs[pp]
		if sp == nil {
			continue
		}
		for name, m := range sp.Members {
			f, ok := m.(*ssa.Function)
			if !ok || !strings.HasPrefix(name, "Harness_") {
				continue
			}
			if prop == "" || strings.HasPrefix(name, "Harness_"+prop+"_") {
				out = append(out, f)
			}
		}
	}
	sort.Slice(out, func(i, j int) bool { return out[i].Name() < out[j].Name() })
	return out
}

func isGeoPkg(p *types.Package) bool {
	return p != nil && strings.HasPrefix(p.Path(), ModulePath)
}
