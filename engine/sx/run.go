package sx

import (
	"crypto/sha1"
	"encoding/json"
	"fmt"
	"math"
	"math/big"
	"os"
	"os/exec"
	"path/filepath"
	"runtime/debug"
	"sort"
	"strings"
	"sync"
	"time"

	"go/types"

	"golang.org/x/tools/go/ssa"
)

type Options struct {
	Repo     string
	Verif    string
	Tier     string // quick | thorough
	Property string
	Only     string // substring filter on harness names
	Workers  int
	Seed     int
	Verbose  bool
	KeepGoing bool
}

type HarnessReport struct {
	tf       *TF
	Name     string
	Pkg      string
	Dom      string
	Obls     []*Obligation
	Fault    string
	Funcs    map[string]int
	Stubs    []string
	Notes    []string
	Assumes  []string
	Paths    int
	Branches int
	Merges   int
	Instrs   int
	FeasQ    int
	FeasSecs float64
	ExecSecs float64
	UFs      map[string]int
	Lemmas   map[string]int
}

type Runner struct {
	L     *Loaded
	Opt   Options
	Pool  *Pool
	sem   chan struct{}
	mu    sync.Mutex
	known []KnownFinding
	replayDir string
	replayOnce sync.Once
	replayErr error
	ovJSON string
}

type KnownFinding struct {
	Property string `json:"property"`
	Status   string `json:"status"` // known | fixed
	Harness  string `json:"harness"`
	Label    string `json:"label,omitempty"`
	Site     string `json:"site,omitempty"`
	What     string `json:"what"`
	Commit   string `json:"commit,omitempty"`
}

func NewRunner(l *Loaded, opt Options) *Runner {
	if opt.Workers <= 0 {
		opt.Workers = 16
	}
	r := &Runner{L: l, Opt: opt, Pool: NewPool(), sem: make(chan struct{}, opt.Workers)}
	data, err := os.ReadFile(filepath.Join(opt.Verif, "known_findings.json"))
	if err == nil {
		var kf struct {
			Findings []KnownFinding `json:"findings"`
		}
		if json.Unmarshal(data, &kf) == nil {
			r.known = kf.Findings
		}
	}
	return r
}

func (r *Runner) newExec() *Exec {
	x := &Exec{prog: r.L.Prog, tf: NewTF(), globals: map[*ssa.Global]int{}, globalRev: map[int]*ssa.Global{}, funcs: map[string]int{},
		stubs: map[string]*ssa.Function{}, stubsUsed: map[string]bool{}, feasCache: map[string]string{}, assumptions: map[string]bool{}}
	x.thorough = r.tierThorough()
	x.errType = types.NewNamed(types.NewTypeName(0, nil, "vrOpaqueError", nil), types.NewStruct(nil, nil), nil)
	return x
}

// initState runs the geo package initialisers concretely.
func (x *Exec) initState(l *Loaded) *State {
	st := &State{heap: map[int]Value{}, counters: map[string]int{}, ghost: map[string]Value{}}
	x.cfg = Config{Dom: DomNone, Unwind: 1 << 30, MaxDepth: 300, FeasTimeout: 5 * time.Second, NoMerge: true, AllocLimit: 1 << 40, MakeSplit: 3}
	x.harness = "<init>"
	for _, path := range []string{ModulePath + "/s2", ModulePath + "/s2/s2intersect"} {
		p := l.Pkgs[path]
		if p == nil {
			continue
		}
		init := p.Func("init")
		rs := x.callFunction(st, init, nil, nil, 1, nil)
		if len(rs) != 1 {
			panic(x.fault("package init of %s produced %d paths", path, len(rs)))
		}
		st = rs[0].St
	}
	for _, o := range x.obls {
		if !o.Folded {
			panic(x.fault("package init produced obligation %s at %s", o.Label, o.Site))
		}
	}
	x.obls = nil
	return st
}

func (r *Runner) tierThorough() bool { return r.Opt.Tier == "thorough" }

// RunHarness symbolically executes one harness.
func (r *Runner) RunHarness(x *Exec, base *State, fn *ssa.Function) (rep *HarnessReport) {
	rep = &HarnessReport{Name: fn.Name(), Pkg: fn.Pkg.Pkg.Path()}
	t0 := time.Now()
	x.harness = fn.Name()
	x.hpkg = fn.Pkg
	x.obls = nil
	x.funcs = map[string]int{}
	x.stubs = map[string]*ssa.Function{}
	x.stubsUsed = map[string]bool{}
	x.feasCache = map[string]string{}
	x.assumptions = map[string]bool{}
	x.notes = nil
	x.Stats = struct {
		Paths, Branches, FeasQueries, Merges, Instrs, Cut, Calls int
		FeasSecs                                                float64
	}{}
	x.cfg = Config{Dom: DomNone, Unwind: 40, MaxDepth: 80, FeasTimeout: 10 * time.Second, AllocLimit: 50000000, MakeSplit: 3, MaxPaths: 200000}
	budget := 20 * time.Minute
	if r.tierThorough() {
		budget = 90 * time.Minute
	}
	x.deadline = time.Now().Add(budget)
	defer func() {
		if e := recover(); e != nil {
			if f, ok := e.(*Fault); ok {
				rep.Fault = f.Msg
			} else {
				rep.Fault = fmt.Sprintf("executor panic: %v\n%s", e, debug.Stack())
			}
		}
		x.closeFeas()
		rep.Obls = x.obls
		rep.Funcs = x.funcs
		rep.Dom = x.cfg.Dom.String()
		rep.Notes = x.notes
		for s := range x.stubsUsed {
			rep.Stubs = append(rep.Stubs, s)
		}
		sort.Strings(rep.Stubs)
		for a := range x.assumptions {
			rep.Assumes = append(rep.Assumes, a)
		}
		sort.Strings(rep.Assumes)
		rep.Paths, rep.Branches, rep.Merges, rep.Instrs = x.Stats.Paths, x.Stats.Branches, x.Stats.Merges, x.Stats.Instrs
		rep.FeasQ, rep.FeasSecs = x.Stats.FeasQueries, x.Stats.FeasSecs
		rep.ExecSecs = time.Since(t0).Seconds()
	}()
	st := base.clone()
	x.callFunction(st, fn, nil, nil, 1, nil)
	return rep
}

func solversFor(dom Domain, thorough bool) (primary []string, fallback []string) {
	switch dom {
	case DomNone:
		return []string{"z3-new", "z3"}, []string{"cvc5"}
	case DomFPX:
		return []string{"cvc5", "z3-new"}, []string{"z3"}
	default:
		return []string{"z3-new"}, []string{"z3", "cvc5"}
	}
}

func oblDomain(x *Exec) Domain { return x.cfg.Dom }

// discharge decides one obligation.
func (r *Runner) discharge(tf *TF, dom Domain, o *Obligation, rep *HarnessReport) {
	if o.Folded {
		return
	}
	if o.RawScript != "" {
		timeout := 60 * time.Second
		if r.tierThorough() {
			timeout = 600 * time.Second
		}
		r.sem <- struct{}{}
		res, _ := r.Pool.Portfolio([]string{"z3-new", "z3"}, o.RawScript, o.RawNames, timeout, r.tierThorough())
		<-r.sem
		o.Status, o.Solver, o.Secs, o.Model, o.Detail = res.Status, res.Solver, res.Secs, res.Model, res.Detail
		o.Size = strings.Count(o.RawScript, "\n")
		return
	}
	asserts := append([]*Term(nil), o.PC...)
	if o.Kind != "reach" {
		if o.negCond == nil {
			panic("discharge: negated claim not prepared")
		}
		asserts = append(asserts, o.negCond)
	}
	p := NewPrinter(tf, dom)
	script := p.Script(asserts)
	if p.Err != nil {
		o.Status = "error"
		o.Detail = p.Err.Error()
		return
	}
	o.Size = TermSize(asserts)
	r.mu.Lock()
	for k, v := range p.UsedUF {
		rep.UFs[k] += v
	}
	if p.ruf != nil {
		for k, v := range p.ruf.lemmaCnt {
			rep.Lemmas[k] += v
		}
	}
	r.mu.Unlock()
	var names []string
	declared := map[string]bool{}
	for _, n := range p.DeclaredVars() {
		declared[n] = true
	}
	for _, in := range o.Inputs {
		if declared[in.Name] {
			names = append(names, in.Name)
		}
	}
	timeout := 60 * time.Second
	if r.tierThorough() && !o.First {
		timeout = 600 * time.Second
	}
	prim, fb := solversFor(dom, r.tierThorough() && !o.First)
	r.sem <- struct{}{}
	defer func() { <-r.sem }()
	var res CheckResult
	if r.tierThorough() && !o.First {
		all := append(append([]string{}, prim...), fb...)
		var got []CheckResult
		res, got = r.Pool.Portfolio(all, script, names, timeout, true)
		verdicts := map[string]bool{}
		for _, g := range got {
			if g.Status == "sat" || g.Status == "unsat" {
				verdicts[g.Status] = true
			}
		}
		if len(verdicts) > 1 {
			o.Status = "error"
			o.Detail = "solver disagreement"
			return
		}
	} else {
		first := 20 * time.Second
		res, _ = r.Pool.Portfolio(prim, script, names, first, false)
		if res.Status != "sat" && res.Status != "unsat" {
			all := append(append([]string{}, prim...), fb...)
			res, _ = r.Pool.Portfolio(all, script, names, timeout, false)
		}
	}
	o.Status, o.Solver, o.Secs, o.Model, o.Detail = res.Status, res.Solver, res.Secs, res.Model, res.Detail
	if os.Getenv("GOSMT_DUMP") != "" && (o.Status != "unsat" || os.Getenv("GOSMT_DUMP") == "all") {
		h := sha1.Sum([]byte(script))
		f := filepath.Join(os.Getenv("GOSMT_DUMP_DIR"), fmt.Sprintf("%s-%x.smt2", o.Harness, h[:4]))
		os.WriteFile(f, []byte(script+"(check-sat)\n"), 0644)
	}
}

// ---------- replay

type ReplayFile struct {
	Property string            `json:"property"`
	Harness  string            `json:"harness"`
	Package  string            `json:"package"`
	Kind     string            `json:"kind"`
	Label    string            `json:"label"`
	Site     string            `json:"site"`
	Domain   string            `json:"domain"`
	Vars     map[string]string `json:"vars"`
	Choices  map[string]int64  `json:"choices"`
	Solver   string            `json:"solver"`
	Stream   string            `json:"stream,omitempty"` // hex bytes of the input stream reconstructed from the token trace
}

// buildStream turns the token trace of a path plus model values into the concrete input bytes.
func buildStream(trace []string, vars map[string]string) string {
	var bs []byte
	num := func(name string) uint64 {
		var u uint64
		fmt.Sscan(vars[name], &u)
		return u
	}
	for _, t := range trace {
		switch {
		case strings.HasPrefix(t, "B:"):
			bs = append(bs, byte(num(t[2:])))
		case strings.HasPrefix(t, "V:"):
			v := num(t[2:])
			for v >= 0x80 {
				bs = append(bs, byte(v)|0x80)
				v >>= 7
			}
			bs = append(bs, byte(v))
		case strings.HasPrefix(t, "X:"):
			var raw []byte
			fmt.Sscanf(t[2:], "%x", &raw)
			bs = append(bs, raw...)
		case t == "E":
			return fmt.Sprintf("%x", bs)
		}
	}
	return fmt.Sprintf("%x", bs)
}

func modelToVars(o *Obligation, dom Domain) map[string]string {
	vars := map[string]string{}
	for _, in := range o.Inputs {
		mv, ok := o.Model[in.Name]
		if !ok {
			continue
		}
		name := strings.TrimSuffix(in.Name, "!bits")
		if i := strings.Index(in.Name, "!bits#"); i >= 0 {
			name = in.Name[:i] + in.Name[i+5:]
		}
		switch in.S.K {
		case KBool:
			vars[name] = strings.TrimSpace(mv)
		case KBV:
			if u, ok := ModelBV(mv); ok {
				vars[name] = fmt.Sprint(u)
			}
		case KFloat:
			if dom == DomFPX {
				if b, ok := ModelFP(mv); ok {
					vars[name] = fmt.Sprint(b)
				}
			} else {
				if rt, ok := ModelRat(mv); ok {
					f := ratToFloat(rt)
					vars[name] = fmt.Sprint(math.Float64bits(f))
				}
			}
		}
	}
	return vars
}

func ratToFloat(r *big.Rat) float64 {
	f, _ := r.Float64()
	return f
}

func (r *Runner) prepareReplay() error {
	r.replayOnce.Do(func() {
		dir, err := os.MkdirTemp("", "gosmt-replay-")
		if err != nil {
			r.replayErr = err
			return
		}
		r.replayDir = dir
		repl := map[string]string{}
		i := 0
		for vp, data := range r.L.Overlay {
			i++
			real := filepath.Join(dir, fmt.Sprintf("f%d_%s", i, filepath.Base(vp)))
			if err := os.WriteFile(real, data, 0644); err != nil {
				r.replayErr = err
				return
			}
			repl[vp] = real
		}
		// one test file per harness package
		for _, pp := range r.L.HarnPkgs {
			sp := r.L.Pkgs[pp]
			var names []string
			for name, m := range sp.Members {
				if _, ok := m.(*ssa.Function); ok && strings.HasPrefix(name, "Harness_") {
					names = append(names, name)
				}
			}
			sort.Strings(names)
			var sb strings.Builder
			fmt.Fprintf(&sb, "package %s\n\nimport \"testing\"\n\nfunc TestVerifReplay(t *testing.T) {\n\tvrReplayRun(map[string]func(){\n", sp.Pkg.Name())
			for _, n := range names {
				fmt.Fprintf(&sb, "\t\t%q: %s,\n", n, n)
			}
			sb.WriteString("\t})\n}\n")
			rel := strings.TrimPrefix(pp, ModulePath+"/")
			vp := filepath.Join(r.L.RepoDir, rel, "zz_verif_replay_test.go")
			i++
			real := filepath.Join(dir, fmt.Sprintf("f%d_replay_test.go", i))
			os.WriteFile(real, []byte(sb.String()), 0644)
			repl[vp] = real
		}
		data, _ := json.Marshal(map[string]interface{}{"Replace": repl})
		r.ovJSON = filepath.Join(dir, "overlay.json")
		r.replayErr = os.WriteFile(r.ovJSON, data, 0644)
	})
	return r.replayErr
}

func (r *Runner) Cleanup() {
	if r.replayDir != "" {
		os.RemoveAll(r.replayDir)
	}
	r.Pool.CloseAll()
}

// RunReplay executes the native replay of a replay file and returns the outcome text.
func (r *Runner) RunReplay(rf *ReplayFile, path string) (string, error) {
	if err := r.prepareReplay(); err != nil {
		return "", err
	}
	pkg := "./" + strings.TrimPrefix(rf.Package, ModulePath+"/")
	args := fmt.Sprintf("ulimit -v 6000000; exec go test -v -vet=off -count=1 -timeout 60s -run 'TestVerifReplay$' -overlay %s %s", r.ovJSON, pkg)
	if rf.Kind == "conc" {
		// concurrency findings are replayed as a stress run under the race detector
		args = fmt.Sprintf("exec go test -race -v -vet=off -count=1 -timeout 120s -run 'TestVerifReplay$' -overlay %s %s", r.ovJSON, pkg)
	}
	cmd := exec.Command("bash", "-c", args)
	cmd.Dir = r.L.RepoDir
	cmd.Env = append(goEnv(), "VERIF_REPLAY="+path, "VERIF_TIER="+r.Opt.Tier)
	if rf.Kind == "conc" {
		cmd.Env = append(cmd.Env, "VERIF_REPEAT=400")
	}
	out, _ := cmd.CombinedOutput()
	return string(out), nil
}

func confirmOutcome(o *Obligation, out string) string {
	switch o.Kind {
	case "assert":
		if strings.HasPrefix(o.Label, "self-deadlock") {
			if strings.Contains(out, "deadlock") || strings.Contains(out, "test timed out") {
				return "confirmed: native run blocks on the mutex (" + firstLine(out, "fatal error", "panic: test timed out") + ")"
			}
			return ""
		}
		if strings.Contains(out, "REPLAY assert-failed "+o.Label+"\n") {
			return "confirmed: assertion fails natively"
		}
	case "panic", "unwind":
		if o.Kind == "unwind" && strings.Contains(out, "test timed out") {
			return "confirmed: native run does not terminate (test timed out after 60s)"
		}
		if i := strings.Index(out, "REPLAY panic "); i >= 0 {
			l := out[i:]
			if j := strings.Index(l, "\n"); j >= 0 {
				l = l[:j]
			}
			return "confirmed: " + l
		}
		if strings.Contains(out, "fatal error:") || strings.Contains(out, "\npanic: ") {
			return "confirmed: " + firstLine(out, "fatal error:", "panic: ")
		}
	case "conc":
		if strings.Contains(out, "DATA RACE") || strings.Contains(out, "race detected") {
			return "confirmed: the Go race detector reports a data race in a native stress run of the same threads (" + firstLine(out, "WARNING: DATA RACE", "race detected") + ")"
		}
		if strings.Contains(out, "REPLAY assert-failed") {
			return "confirmed: " + firstLine(out, "REPLAY assert-failed")
		}
		if strings.Contains(out, "deadlock") || strings.Contains(out, "test timed out") {
			return "confirmed: native stress run blocks (" + firstLine(out, "fatal error", "panic: test timed out") + ")"
		}
	case "alloc":
		if strings.Contains(out, "out of memory") || strings.Contains(out, "cannot allocate") || strings.Contains(out, "makeslice") || strings.Contains(out, "len out of range") {
			return "confirmed: " + firstLine(out, "fatal error:", "REPLAY panic", "panic: ")
		}
	}
	return ""
}

func firstLine(out string, keys ...string) string {
	for _, l := range strings.Split(out, "\n") {
		for _, k := range keys {
			if strings.Contains(l, k) {
				return strings.TrimSpace(l)
			}
		}
	}
	return ""
}

// refineFPX re-decides one obligation under exact IEEE semantics.
func (r *Runner) refineFPX(tf *TF, o *Obligation) (string, map[string]string) {
	asserts := append([]*Term(nil), o.PC...)
	if o.Kind != "reach" {
		asserts = append(asserts, o.negCond)
	}
	p := NewPrinter(tf, DomFPX)
	script := p.Script(asserts)
	if p.Err != nil {
		return "error", nil
	}
	declared := map[string]bool{}
	for _, n := range p.DeclaredVars() {
		declared[n] = true
	}
	var names []string
	for _, in := range o.Inputs {
		if declared[in.Name] {
			names = append(names, in.Name)
		}
	}
	timeout := 120 * time.Second
	if r.tierThorough() {
		timeout = 600 * time.Second
	}
	r.sem <- struct{}{}
	defer func() { <-r.sem }()
	res, _ := r.Pool.Portfolio([]string{"cvc5", "z3-new", "z3"}, script, names, timeout, false)
	return res.Status, res.Model
}

func (r *Runner) matchKnown(prop string, o *Obligation) *KnownFinding {
	for i := range r.known {
		k := &r.known[i]
		if k.Status != "known" || k.Property != prop {
			continue
		}
		if k.Harness != "" && k.Harness != o.Harness {
			continue
		}
		if k.Label != "" && k.Label != o.Label {
			continue
		}
		if k.Site != "" && k.Site != o.Site {
			continue
		}
		return k
	}
	return nil
}
