package sx

import (
	"math/big"

	"golang.org/x/tools/go/ssa"
)

// REAL domain: *big.Float objects hold an exact real term.  Operations are exact
// when the destination precision is >= exactPrec bits (every polynomial of degree
// <= 6 in doubles is exactly representable far below that); otherwise the result
// passes through an uninterpreted rounding function, so that lowering the
// precision in the source makes exactness proofs fail.
const exactPrec = 16384

func (x *Exec) bigGet(st *State, v Value, site ssa.Instruction) *BigV {
	p := v.(*PtrV)
	if p.Obj == 0 {
		panic(x.fault("nil *big.Float at %s", x.pos(site)))
	}
	c := x.load(st, p)
	if b, ok := c.(*BigV); ok {
		return b
	}
	return &BigV{R: x.tf.RealInt(0), Prec: 0}
}

func (x *Exec) bigSet(st *State, v Value, b *BigV) {
	x.store(st, v.(*PtrV), b)
}

func (x *Exec) bigRound(r *Term, prec uint) *Term {
	if prec >= exactPrec || r.IsConst() {
		return r
	}
	return x.tf.UF("bigrnd", SReal, r, x.tf.BV(uint64(prec), 32))
}

func maxPrec(a, b uint) uint {
	if a > b {
		return a
	}
	return b
}

var bigIntrinsics map[string]intrinsicFn

func bigIntrinsic(name string) intrinsicFn { return bigIntrinsics[name] }

func init() {
	binop := func(op Op) intrinsicFn {
		return func(x *Exec, st *State, fr *Frame, args []Value, site ssa.Instruction) []Result {
			z := x.bigGet(st, args[0], site)
			a := x.bigGet(st, args[1], site)
			b := x.bigGet(st, args[2], site)
			prec := z.Prec
			if prec == 0 {
				prec = maxPrec(a.Prec, b.Prec)
			}
			r := x.bigRound(x.tf.RBin(op, a.R, b.R), prec)
			x.bigSet(st, args[0], &BigV{R: r, Prec: prec})
			return ret1(st, args[0])
		}
	}
	bigIntrinsics = map[string]intrinsicFn{
		"(*math/big.Float).SetPrec": func(x *Exec, st *State, fr *Frame, args []Value, site ssa.Instruction) []Result {
			z := x.bigGet(st, args[0], site)
			prec := uint(intArg(args[1]))
			x.bigSet(st, args[0], &BigV{R: x.bigRound(z.R, prec), Prec: prec})
			return ret1(st, args[0])
		},
		"(*math/big.Float).SetMode": func(x *Exec, st *State, fr *Frame, args []Value, site ssa.Instruction) []Result {
			return ret1(st, args[0])
		},
		"(*math/big.Float).SetFloat64": func(x *Exec, st *State, fr *Frame, args []Value, site ssa.Instruction) []Result {
			z := x.bigGet(st, args[0], site)
			prec := z.Prec
			if prec == 0 {
				prec = 53
			}
			x.bigSet(st, args[0], &BigV{R: x.tf.FToReal(args[1].(*Term)), Prec: prec})
			return ret1(st, args[0])
		},
		"(*math/big.Float).SetInt64": func(x *Exec, st *State, fr *Frame, args []Value, site ssa.Instruction) []Result {
			z := x.bigGet(st, args[0], site)
			prec := z.Prec
			if prec == 0 {
				prec = 64
			}
			x.bigSet(st, args[0], &BigV{R: x.tf.RealInt(intArg(args[1])), Prec: prec})
			return ret1(st, args[0])
		},
		"(*math/big.Float).SetString": func(x *Exec, st *State, fr *Frame, args []Value, site ssa.Instruction) []Result {
			z := x.bigGet(st, args[0], site)
			s := strArg(args[1])
			r, ok := new(big.Rat).SetString(s)
			if !ok {
				return ret1(st, &StructV{F: []Value{&PtrV{}, x.tf.False}})
			}
			prec := z.Prec
			if prec == 0 {
				prec = 64
			}
			x.bigSet(st, args[0], &BigV{R: x.tf.Real(r), Prec: prec})
			return ret1(st, &StructV{F: []Value{args[0], x.tf.True}})
		},
		"(*math/big.Float).Set": func(x *Exec, st *State, fr *Frame, args []Value, site ssa.Instruction) []Result {
			z := x.bigGet(st, args[0], site)
			a := x.bigGet(st, args[1], site)
			prec := z.Prec
			if prec == 0 {
				prec = a.Prec
			}
			x.bigSet(st, args[0], &BigV{R: x.bigRound(a.R, prec), Prec: prec})
			return ret1(st, args[0])
		},
		"(*math/big.Float).Copy": func(x *Exec, st *State, fr *Frame, args []Value, site ssa.Instruction) []Result {
			a := x.bigGet(st, args[1], site)
			x.bigSet(st, args[0], &BigV{R: a.R, Prec: a.Prec})
			return ret1(st, args[0])
		},
		"(*math/big.Float).Add": binop(ORAdd),
		"(*math/big.Float).Sub": binop(ORSub),
		"(*math/big.Float).Mul": binop(ORMul),
		"(*math/big.Float).Abs": func(x *Exec, st *State, fr *Frame, args []Value, site ssa.Instruction) []Result {
			z := x.bigGet(st, args[0], site)
			a := x.bigGet(st, args[1], site)
			prec := z.Prec
			if prec == 0 {
				prec = a.Prec
			}
			tf := x.tf
			r := tf.Ite(tf.RCmp(ORLt, a.R, tf.RealInt(0)), tf.RNeg(a.R), a.R)
			x.bigSet(st, args[0], &BigV{R: x.bigRound(r, prec), Prec: prec})
			return ret1(st, args[0])
		},
		"(*math/big.Float).Neg": func(x *Exec, st *State, fr *Frame, args []Value, site ssa.Instruction) []Result {
			z := x.bigGet(st, args[0], site)
			a := x.bigGet(st, args[1], site)
			prec := z.Prec
			if prec == 0 {
				prec = a.Prec
			}
			x.bigSet(st, args[0], &BigV{R: x.bigRound(x.tf.RNeg(a.R), prec), Prec: prec})
			return ret1(st, args[0])
		},
		"(*math/big.Float).Sign": func(x *Exec, st *State, fr *Frame, args []Value, site ssa.Instruction) []Result {
			a := x.bigGet(st, args[0], site)
			tf := x.tf
			z := tf.RealInt(0)
			return ret1(st, tf.Ite(tf.RCmp(ORLt, a.R, z), tf.BV(^uint64(0), 64), tf.Ite(tf.RCmp(ORLt, z, a.R), tf.BV(1, 64), tf.BV(0, 64))))
		},
		"(*math/big.Float).Cmp": func(x *Exec, st *State, fr *Frame, args []Value, site ssa.Instruction) []Result {
			a := x.bigGet(st, args[0], site)
			b := x.bigGet(st, args[1], site)
			tf := x.tf
			return ret1(st, tf.Ite(tf.RCmp(ORLt, a.R, b.R), tf.BV(^uint64(0), 64), tf.Ite(tf.RCmp(ORLt, b.R, a.R), tf.BV(1, 64), tf.BV(0, 64))))
		},
		"(*math/big.Float).Float64": func(x *Exec, st *State, fr *Frame, args []Value, site ssa.Instruction) []Result {
			a := x.bigGet(st, args[0], site)
			return ret1(st, &StructV{F: []Value{x.tf.RealToF(a.R), x.tf.BV(0, 8)}})
		},
		"(*math/big.Float).Prec": func(x *Exec, st *State, fr *Frame, args []Value, site ssa.Instruction) []Result {
			a := x.bigGet(st, args[0], site)
			return ret1(st, x.tf.BV(uint64(a.Prec), 64))
		},
		"(*math/big.Float).IsInf": func(x *Exec, st *State, fr *Frame, args []Value, site ssa.Instruction) []Result {
			return ret1(st, x.tf.False)
		},
		"math/big.NewFloat": func(x *Exec, st *State, fr *Frame, args []Value, site ssa.Instruction) []Result {
			id := st.alloc(&BigV{R: x.tf.FToReal(args[0].(*Term)), Prec: 53})
			return ret1(st, &PtrV{Obj: id})
		},
	}
}
