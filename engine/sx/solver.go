package sx

import (
	"bufio"
	"fmt"
	"io"
	"math"
	"math/big"
	"os/exec"
	"strconv"
	"strings"
	"sync"
	"time"
)

// Solver is one long-lived solver process driven through stdin/stdout.
type Solver struct {
	Kind string // z3 | z3-new | cvc5
	cmd  *exec.Cmd
	in   io.WriteCloser
	out  *bufio.Reader
	mu   sync.Mutex
	dead bool
	Queries int
	Time    time.Duration
}

func solverArgs(kind string) (string, []string) {
	switch kind {
	case "z3":
		return "/usr/bin/z3", []string{"-in", "-smt2"}
	case "z3-new":
		return "z3-new", []string{"-in", "-smt2"}
	case "cvc5":
		return "cvc5", []string{"--incremental", "--lang=smt2", "--produce-models", "--fp-exp"}
	}
	panic("unknown solver " + kind)
}

func StartSolver(kind string) (*Solver, error) {
	bin, args := solverArgs(kind)
	cmd := exec.Command(bin, args...)
	in, err := cmd.StdinPipe()
	if err != nil {
		return nil, err
	}
	outp, err := cmd.StdoutPipe()
	if err != nil {
		return nil, err
	}
	cmd.Stderr = cmd.Stdout
	if err := cmd.Start(); err != nil {
		return nil, err
	}
	s := &Solver{Kind: kind, cmd: cmd, in: in, out: bufio.NewReaderSize(outp, 1<<20)}
	if kind == "cvc5" {
		io.WriteString(in, "(set-logic ALL)\n")
	}
	io.WriteString(in, "(set-option :produce-models true)\n")
	return s, nil
}

func (s *Solver) Close() {
	if s == nil || s.dead {
		return
	}
	s.dead = true
	s.in.Close()
	s.cmd.Process.Kill()
	s.cmd.Wait()
}

type CheckResult struct {
	Status string // sat | unsat | unknown | error
	Model  map[string]string
	Detail string
	Solver string
	Secs   float64
}

// readSexpr reads one balanced s-expression or atom line from the solver.
func (s *Solver) readSexpr() (string, error) {
	var sb strings.Builder
	depth := 0
	started := false
	inBar := false
	for {
		c, err := s.out.ReadByte()
		if err != nil {
			return sb.String(), err
		}
		if inBar {
			sb.WriteByte(c)
			if c == '|' {
				inBar = false
			}
			continue
		}
		switch c {
		case '|':
			inBar = true
			started = true
			sb.WriteByte(c)
		case '(':
			depth++
			started = true
			sb.WriteByte(c)
		case ')':
			depth--
			sb.WriteByte(c)
			if depth == 0 {
				return sb.String(), nil
			}
		case '\n', '\r', ' ', '\t':
			if started && depth == 0 {
				return sb.String(), nil
			}
			if started {
				sb.WriteByte(' ')
			}
		case '"':
			sb.WriteByte(c)
			started = true
			for {
				d, err := s.out.ReadByte()
				if err != nil {
					return sb.String(), err
				}
				sb.WriteByte(d)
				if d == '"' {
					break
				}
			}
		default:
			started = true
			sb.WriteByte(c)
		}
	}
}

// Check runs script (declarations+asserts) inside push/pop and returns the verdict.
// getValues: SMT names whose model values are wanted when sat.
func (s *Solver) Check(script string, getValues []string, timeout time.Duration) CheckResult {
	s.mu.Lock()
	defer s.mu.Unlock()
	t0 := time.Now()
	res := CheckResult{Solver: s.Kind, Status: "error"}
	if s.dead {
		res.Detail = "solver dead"
		return res
	}
	var sb strings.Builder
	// one-shot mode per query: (reset) instead of push/pop, so that z3 uses its
	// non-incremental tactics (measured 10-20x faster on bit-vector path conditions)
	sb.WriteString("(reset)\n")
	ms := int(timeout / time.Millisecond)
	switch s.Kind {
	case "z3", "z3-new":
		fmt.Fprintf(&sb, "(set-option :produce-models true)\n(set-option :timeout %d)\n", ms)
	case "cvc5":
		fmt.Fprintf(&sb, "(set-logic ALL)\n(set-option :produce-models true)\n(set-option :tlimit-per %d)\n", ms)
	}
	sb.WriteString(script)
	sb.WriteString("(check-sat)\n(echo \"!!done\")\n")
	done := make(chan struct{})
	var timedOut bool
	go func() {
		select {
		case <-done:
		case <-time.After(timeout + 5*time.Second):
			timedOut = true
			s.cmd.Process.Kill()
		}
	}()
	_, err := io.WriteString(s.in, sb.String())
	status := ""
	var errs []string
	if err == nil {
		for {
			tok, e := s.readSexpr()
			if e != nil {
				err = e
				break
			}
			tok = strings.TrimSpace(tok)
			if tok == "!!done" || tok == "\"!!done\"" {
				break
			}
			switch {
			case tok == "sat" || tok == "unsat" || tok == "unknown" || tok == "timeout":
				status = tok
			case strings.HasPrefix(tok, "(error"):
				errs = append(errs, tok)
			}
		}
	}
	if err != nil {
		close(done)
		s.dead = true
		s.cmd.Wait()
		res.Status = "unknown"
		res.Detail = "solver died: " + err.Error()
		if timedOut {
			res.Detail = "hard timeout"
		}
		res.Secs = time.Since(t0).Seconds()
		return res
	}
	if len(errs) > 0 {
		res.Status = "error"
		res.Detail = strings.Join(errs, "; ")
	} else if status == "timeout" || status == "" {
		res.Status = "unknown"
	} else {
		res.Status = status
	}
	if res.Status == "sat" && len(getValues) > 0 {
		res.Model = map[string]string{}
		// ask in chunks
		for i := 0; i < len(getValues); i += 50 {
			j := i + 50
			if j > len(getValues) {
				j = len(getValues)
			}
			var q strings.Builder
			q.WriteString("(get-value (")
			for _, v := range getValues[i:j] {
				q.WriteString(smtName(v))
				q.WriteByte(' ')
			}
			q.WriteString("))\n")
			io.WriteString(s.in, q.String())
			tok, e := s.readSexpr()
			if e != nil {
				err = e
				break
			}
			if strings.HasPrefix(strings.TrimSpace(tok), "(error") {
				res.Detail = "get-value: " + tok
				continue
			}
			parseModel(tok, res.Model)
		}
	}
	close(done)
	if err != nil {
		s.dead = true
		s.cmd.Wait()
	}
	s.Queries++
	d := time.Since(t0)
	s.Time += d
	res.Secs = d.Seconds()
	return res
}

// ---- s-expression parsing for models

type sexpr struct {
	atom string
	list []*sexpr
}

func parseSexpr(s string) *sexpr {
	pos := 0
	var parse func() *sexpr
	parse = func() *sexpr {
		for pos < len(s) && (s[pos] == ' ' || s[pos] == '\n' || s[pos] == '\t') {
			pos++
		}
		if pos >= len(s) {
			return nil
		}
		if s[pos] == '(' {
			pos++
			n := &sexpr{list: []*sexpr{}}
			for {
				for pos < len(s) && (s[pos] == ' ' || s[pos] == '\n' || s[pos] == '\t') {
					pos++
				}
				if pos >= len(s) {
					return n
				}
				if s[pos] == ')' {
					pos++
					return n
				}
				c := parse()
				if c == nil {
					return n
				}
				n.list = append(n.list, c)
			}
		}
		st := pos
		if s[pos] == '|' {
			pos++
			for pos < len(s) && s[pos] != '|' {
				pos++
			}
			pos++
			return &sexpr{atom: s[st:pos]}
		}
		for pos < len(s) && s[pos] != ' ' && s[pos] != ')' && s[pos] != '(' && s[pos] != '\n' {
			pos++
		}
		return &sexpr{atom: s[st:pos]}
	}
	return parse()
}

func (e *sexpr) String() string {
	if e.list == nil {
		return e.atom
	}
	var ps []string
	for _, c := range e.list {
		ps = append(ps, c.String())
	}
	return "(" + strings.Join(ps, " ") + ")"
}

func parseModel(tok string, m map[string]string) {
	e := parseSexpr(tok)
	if e == nil {
		return
	}
	for _, pr := range e.list {
		if len(pr.list) != 2 {
			continue
		}
		name := pr.list[0].String()
		name = strings.Trim(name, "|")
		m[name] = pr.list[1].String()
	}
}

// ModelBV parses a BV model value.
func ModelBV(v string) (uint64, bool) {
	v = strings.TrimSpace(v)
	if strings.HasPrefix(v, "#x") {
		u, err := strconv.ParseUint(v[2:], 16, 64)
		return u, err == nil
	}
	if strings.HasPrefix(v, "#b") {
		u, err := strconv.ParseUint(v[2:], 2, 64)
		return u, err == nil
	}
	if strings.HasPrefix(v, "(_ bv") {
		f := strings.Fields(v[5:])
		u, err := strconv.ParseUint(f[0], 10, 64)
		return u, err == nil
	}
	return 0, false
}

// ModelRat parses a Real model value (possibly an algebraic number approximated by z3 as root-obj: unsupported -> false).
func ModelRat(v string) (*big.Rat, bool) {
	e := parseSexpr(v)
	return evalRat(e)
}

func evalRat(e *sexpr) (*big.Rat, bool) {
	if e == nil {
		return nil, false
	}
	if e.list == nil {
		a := strings.TrimSuffix(e.atom, "?")
		r, ok := new(big.Rat).SetString(a)
		return r, ok
	}
	if len(e.list) == 0 {
		return nil, false
	}
	op := e.list[0].atom
	switch op {
	case "-":
		if len(e.list) == 2 {
			x, ok := evalRat(e.list[1])
			if !ok {
				return nil, false
			}
			return x.Neg(x), true
		}
		if len(e.list) == 3 {
			x, ok1 := evalRat(e.list[1])
			y, ok2 := evalRat(e.list[2])
			if !ok1 || !ok2 {
				return nil, false
			}
			return x.Sub(x, y), true
		}
	case "/":
		x, ok1 := evalRat(e.list[1])
		y, ok2 := evalRat(e.list[2])
		if !ok1 || !ok2 || y.Sign() == 0 {
			return nil, false
		}
		return x.Quo(x, y), true
	case "+":
		x, ok1 := evalRat(e.list[1])
		y, ok2 := evalRat(e.list[2])
		if !ok1 || !ok2 {
			return nil, false
		}
		return x.Add(x, y), true
	case "*":
		x, ok1 := evalRat(e.list[1])
		y, ok2 := evalRat(e.list[2])
		if !ok1 || !ok2 {
			return nil, false
		}
		return x.Mul(x, y), true
	case "root-obj":
		return nil, false
	}
	return nil, false
}

// ModelFP parses an FP model value into float64 bits.
func ModelFP(v string) (uint64, bool) {
	e := parseSexpr(v)
	if e == nil {
		return 0, false
	}
	if e.list != nil && len(e.list) == 4 && e.list[0].atom == "fp" {
		s, ok1 := ModelBV(e.list[1].atom)
		ex, ok2 := ModelBV(e.list[2].atom)
		m, ok3 := ModelBV(e.list[3].atom)
		if ok1 && ok2 && ok3 {
			return s<<63 | ex<<52 | m, true
		}
	}
	if e.list != nil && len(e.list) >= 2 && e.list[0].atom == "_" {
		switch e.list[1].atom {
		case "+zero":
			return 0, true
		case "-zero":
			return 1 << 63, true
		case "+oo":
			return math.Float64bits(math.Inf(1)), true
		case "-oo":
			return math.Float64bits(math.Inf(-1)), true
		case "NaN":
			return math.Float64bits(math.NaN()), true
		}
	}
	return 0, false
}

// Pool hands out solver processes of given kinds.
type Pool struct {
	mu    sync.Mutex
	free  map[string][]*Solver
	Stats map[string]*SolverStat
}

type SolverStat struct {
	Queries int
	Secs    float64
}

func NewPool() *Pool {
	return &Pool{free: map[string][]*Solver{}, Stats: map[string]*SolverStat{}}
}

func (p *Pool) Get(kind string) (*Solver, error) {
	p.mu.Lock()
	l := p.free[kind]
	if len(l) > 0 {
		s := l[len(l)-1]
		p.free[kind] = l[:len(l)-1]
		p.mu.Unlock()
		return s, nil
	}
	p.mu.Unlock()
	return StartSolver(kind)
}

func (p *Pool) Put(s *Solver) {
	if s.dead {
		return
	}
	p.mu.Lock()
	p.free[s.Kind] = append(p.free[s.Kind], s)
	p.mu.Unlock()
}

func (p *Pool) Note(kind string, secs float64) {
	p.mu.Lock()
	st := p.Stats[kind]
	if st == nil {
		st = &SolverStat{}
		p.Stats[kind] = st
	}
	st.Queries++
	st.Secs += secs
	p.mu.Unlock()
}

func (p *Pool) CloseAll() {
	p.mu.Lock()
	defer p.mu.Unlock()
	for _, l := range p.free {
		for _, s := range l {
			s.Close()
		}
	}
	p.free = map[string][]*Solver{}
}

// CheckOn runs one query on a pooled solver of the given kind.
func (p *Pool) CheckOn(kind, script string, getValues []string, timeout time.Duration) CheckResult {
	s, err := p.Get(kind)
	if err != nil {
		return CheckResult{Status: "error", Detail: err.Error(), Solver: kind}
	}
	r := s.Check(script, getValues, timeout)
	p.Note(kind, r.Secs)
	if s.dead {
		s.Close()
	} else {
		p.Put(s)
	}
	return r
}

// Portfolio runs the query on all kinds in parallel; first definitive answer wins
// unless all==true, in which case all are awaited and must agree.
func (p *Pool) Portfolio(kinds []string, script string, getValues []string, timeout time.Duration, all bool) (CheckResult, []CheckResult) {
	if len(kinds) == 1 {
		r := p.CheckOn(kinds[0], script, getValues, timeout)
		return r, []CheckResult{r}
	}
	ch := make(chan CheckResult, len(kinds))
	solvers := make([]*Solver, len(kinds))
	for i, k := range kinds {
		s, err := p.Get(k)
		if err != nil {
			ch <- CheckResult{Status: "error", Detail: err.Error(), Solver: k}
			continue
		}
		solvers[i] = s
		go func(s *Solver) {
			r := s.Check(script, getValues, timeout)
			p.Note(s.Kind, r.Secs)
			ch <- r
		}(s)
	}
	var got []CheckResult
	var best *CheckResult
	var grace <-chan time.Time
	t0 := time.Now()
collect:
	for range kinds {
		select {
		case r := <-ch:
			got = append(got, r)
			if (r.Status == "sat" || r.Status == "unsat") && best == nil {
				rr := r
				best = &rr
				if !all {
					break collect
				}
				// cross-check mode: the other back ends get a bounded grace period to agree or
				// disagree: four times what the first answer took, at least 5 s, at most 45 s
				g := 4 * time.Since(t0)
				if g < 5*time.Second {
					g = 5 * time.Second
				}
				if g > 45*time.Second {
					g = 45 * time.Second
				}
				grace = time.After(g)
			}
		case <-grace:
			break collect
		}
	}
	// dispose: solvers still running are killed
	for _, s := range solvers {
		if s == nil {
			continue
		}
		if s.mu.TryLock() {
			s.mu.Unlock()
			if s.dead {
				s.Close()
			} else {
				p.Put(s)
			}
		} else {
			s.cmd.Process.Kill()
		}
	}
	if best != nil {
		return *best, got
	}
	return got[0], got
}
