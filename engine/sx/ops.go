package sx

import (
	"fmt"
	"go/token"
	"go/types"

	"golang.org/x/tools/go/ssa"
)

func (x *Exec) binop(st *State, op token.Token, a, b Value, ta, tb types.Type, in ssa.Instruction) (Value, bool) {
	tf := x.tf
	switch av := a.(type) {
	case *Term:
		bv := b.(*Term)
		switch av.S.K {
		case KBool:
			switch op {
			case token.EQL:
				return tf.Eq(av, bv), true
			case token.NEQ:
				return tf.Not(tf.Eq(av, bv)), true
			case token.AND, token.LAND:
				return tf.And(av, bv), true
			case token.OR, token.LOR:
				return tf.Or(av, bv), true
			case token.XOR:
				return tf.Not(tf.Eq(av, bv)), true
			}
		case KFloat:
			switch op {
			case token.ADD:
				return tf.FBin(OFAdd, av, bv), true
			case token.SUB:
				return tf.FBin(OFSub, av, bv), true
			case token.MUL:
				return tf.FBin(OFMul, av, bv), true
			case token.QUO:
				return tf.FBin(OFDiv, av, bv), true
			case token.LSS:
				return tf.FCmp(OFLt, av, bv), true
			case token.LEQ:
				return tf.FCmp(OFLe, av, bv), true
			case token.GTR:
				return tf.FCmp(OFLt, bv, av), true
			case token.GEQ:
				return tf.FCmp(OFLe, bv, av), true
			case token.EQL:
				return tf.FCmp(OFEq, av, bv), true
			case token.NEQ:
				return tf.Not(tf.FCmp(OFEq, av, bv)), true
			}
		case KBV:
			signed := isSigned(ta)
			w := av.S.W
			switch op {
			case token.ADD:
				return tf.BVBin(OAdd, av, bv), true
			case token.SUB:
				return tf.BVBin(OSub, av, bv), true
			case token.MUL:
				return tf.BVBin(OMul, av, bv), true
			case token.QUO, token.REM:
				if !x.check(st, tf.Not(tf.Eq(bv, tf.BV(0, w))), "integer divide by zero", in) {
					return nil, false
				}
				if signed {
					if op == token.QUO {
						return tf.BVBin(OSDiv, av, bv), true
					}
					return tf.BVBin(OSRem, av, bv), true
				}
				if op == token.QUO {
					return tf.BVBin(OUDiv, av, bv), true
				}
				return tf.BVBin(OURem, av, bv), true
			case token.AND:
				return tf.BVBin(OBAnd, av, bv), true
			case token.OR:
				return tf.BVBin(OBOr, av, bv), true
			case token.XOR:
				return tf.BVBin(OBXor, av, bv), true
			case token.AND_NOT:
				return tf.BVBin(OBAnd, av, tf.BVNot(bv)), true
			case token.SHL, token.SHR:
				cnt, big := x.shiftCount(bv, tb, w)
				var r *Term
				if op == token.SHL {
					r = tf.BVBin(OShl, av, cnt)
					r = tf.Ite(big, tf.BV(0, w), r)
				} else if signed {
					r = tf.BVBin(OAShr, av, cnt)
					r = tf.Ite(big, tf.BVBin(OAShr, av, tf.BV(uint64(w-1), w)), r)
				} else {
					r = tf.BVBin(OLShr, av, cnt)
					r = tf.Ite(big, tf.BV(0, w), r)
				}
				return r, true
			case token.EQL:
				return tf.Eq(av, bv), true
			case token.NEQ:
				return tf.Not(tf.Eq(av, bv)), true
			case token.LSS:
				if signed {
					return tf.BVCmp(OSLt, av, bv), true
				}
				return tf.BVCmp(OULt, av, bv), true
			case token.LEQ:
				if signed {
					return tf.BVCmp(OSLe, av, bv), true
				}
				return tf.BVCmp(OULe, av, bv), true
			case token.GTR:
				if signed {
					return tf.BVCmp(OSLt, bv, av), true
				}
				return tf.BVCmp(OULt, bv, av), true
			case token.GEQ:
				if signed {
					return tf.BVCmp(OSLe, bv, av), true
				}
				return tf.BVCmp(OULe, bv, av), true
			}
		case KReal:
			switch op {
			case token.ADD:
				return tf.RBin(ORAdd, av, bv), true
			case token.SUB:
				return tf.RBin(ORSub, av, bv), true
			case token.MUL:
				return tf.RBin(ORMul, av, bv), true
			case token.LSS:
				return tf.RCmp(ORLt, av, bv), true
			case token.LEQ:
				return tf.RCmp(ORLe, av, bv), true
			case token.EQL:
				return tf.Eq(av, bv), true
			}
		}
	case *StrV:
		bv := b.(*StrV)
		switch op {
		case token.ADD:
			return &StrV{S: av.S + bv.S}, true
		case token.EQL:
			return tf.Bool(av.S == bv.S), true
		case token.NEQ:
			return tf.Bool(av.S != bv.S), true
		case token.LSS:
			return tf.Bool(av.S < bv.S), true
		case token.LEQ:
			return tf.Bool(av.S <= bv.S), true
		case token.GTR:
			return tf.Bool(av.S > bv.S), true
		case token.GEQ:
			return tf.Bool(av.S >= bv.S), true
		}
	case *StructV:
		// struct / array equality
		bv := b.(*StructV)
		eq := x.valueEq(av, bv, in)
		if op == token.EQL {
			return eq, true
		}
		if op == token.NEQ {
			return tf.Not(eq), true
		}
	default:
		if op == token.EQL || op == token.NEQ {
			eq := x.valueEq(a, b, in)
			if op == token.EQL {
				return eq, true
			}
			return tf.Not(eq), true
		}
	}
	panic(x.fault("unsupported binop %v on %T at %s", op, a, x.pos(in)))
}

// valueEq is Go's == on comparable values.
func (x *Exec) valueEq(a, b Value, in ssa.Instruction) *Term {
	tf := x.tf
	switch av := a.(type) {
	case *Term:
		bv := b.(*Term)
		if av.S.K == KFloat {
			return tf.FCmp(OFEq, av, bv)
		}
		return tf.Eq(av, bv)
	case *StructV:
		bv := b.(*StructV)
		var cs []*Term
		for i := range av.F {
			cs = append(cs, x.valueEq(av.F[i], bv.F[i], in))
		}
		return tf.And(cs...)
	case *IfaceV:
		bv, ok := b.(*IfaceV)
		if !ok {
			// comparing interface with nil pointer constant etc.
			return tf.Bool(av.T == nil)
		}
		if av.T == nil || bv.T == nil {
			return tf.Bool(av.T == nil && bv.T == nil)
		}
		if !types.Identical(av.T, bv.T) {
			return tf.False
		}
		return x.valueEq(av.V, bv.V, in)
	case *PtrV, *SliceV, *MapV, *FuncV, *StrV, *OpaqueV:
		if s, ok := a.(*SliceV); ok {
			// only comparison with nil is legal
			if s2, ok := b.(*SliceV); ok {
				return tf.Bool(s.Obj == 0 && s2.Obj == 0 || x.sameValue(a, b))
			}
		}
		if f, ok := a.(*FuncV); ok {
			if f2, ok := b.(*FuncV); ok {
				return tf.Bool((f.Fn == nil) == (f2.Fn == nil) && (f.Fn == nil || f.Fn == f2.Fn))
			}
		}
		return tf.Bool(x.sameValue(a, b))
	}
	panic(x.fault("unsupported == on %T at %s", a, x.pos(in)))
}

// shiftCount converts a shift count to width w; big is true when count >= w.
func (x *Exec) shiftCount(c *Term, ct types.Type, w int) (*Term, *Term) {
	tf := x.tf
	cw := c.S.W
	big := tf.BVCmp(OULe, tf.BV(uint64(w), cw), c) // count >= w (negative signed counts are huge unsigned: Go panics; treated as >= w)
	var cnt *Term
	if cw == w {
		cnt = c
	} else if cw < w {
		cnt = tf.ZExt(c, w)
	} else {
		cnt = tf.Extract(c, w-1, 0)
	}
	return cnt, big
}

func (x *Exec) convert(st *State, v Value, from, to types.Type, in ssa.Instruction) Value {
	tf := x.tf
	fu, tu := from.Underlying(), to.Underlying()
	if tv, ok := v.(*Term); ok {
		switch {
		case isInt(fu) && isInt(tu):
			w := intWidth(tu.(*types.Basic))
			if tv.S.W == w {
				return tv
			}
			if tv.S.W > w {
				return tf.Extract(tv, w-1, 0)
			}
			if isSigned(fu) {
				return tf.SExt(tv, w)
			}
			return tf.ZExt(tv, w)
		case isInt(fu) && isFloat(tu):
			return tf.IntToF(tv, isSigned(fu))
		case isFloat(fu) && isInt(tu):
			w := intWidth(tu.(*types.Basic))
			if isSigned(tu) {
				return tf.FToSInt(tv, w)
			}
			// unsigned: via signed 64 for in-range values (Go: implementation-defined outside)
			r := tf.FToSInt(tv, 64)
			if w < 64 {
				return tf.Extract(r, w-1, 0)
			}
			return r
		case isFloat(fu) && isFloat(tu):
			fb, tb := fu.(*types.Basic), tu.(*types.Basic)
			if fb.Kind() == tb.Kind() || tb.Kind() == types.Float64 || tb.Kind() == types.UntypedFloat {
				return tv
			}
			return tf.FFun("tofloat32", tv)
		case isInt(fu) && isString(tu):
			if tv.IsConst() {
				return &StrV{S: string(rune(tv.U))}
			}
		}
	}
	if sv, ok := v.(*StrV); ok {
		if sl, ok := tu.(*types.Slice); ok {
			if b, ok := sl.Elem().Underlying().(*types.Basic); ok && b.Kind() == types.Uint8 {
				f := make([]Value, len(sv.S))
				for i := range f {
					f[i] = tf.BV(uint64(sv.S[i]), 8)
				}
				id := st.alloc(&StructV{F: f})
				return &SliceV{Obj: id, Len: len(f), Cap: len(f)}
			}
		}
		if isString(tu) {
			return sv
		}
	}
	if sl, ok := v.(*SliceV); ok && isString(tu) {
		bs := make([]byte, sl.Len)
		for i := 0; i < sl.Len; i++ {
			e := x.sliceElem(st, sl, i).(*Term)
			if !e.IsConst() {
				panic(x.fault("string conversion of symbolic bytes at %s", x.pos(in)))
			}
			bs[i] = byte(e.U)
		}
		return &StrV{S: string(bs)}
	}
	if _, ok := v.(*PtrV); ok {
		return v
	}
	panic(x.fault("unsupported conversion %v -> %v at %s", from, to, x.pos(in)))
}

func (x *Exec) sliceElem(st *State, s *SliceV, i int) Value {
	arr := x.getPath(st.heap[s.Obj], s.Path).(*StructV)
	return arr.F[s.Off+i]
}

func (x *Exec) sliceArr(st *State, s *SliceV) *StructV {
	return x.getPath(st.heap[s.Obj], s.Path).(*StructV)
}

func (x *Exec) setSliceArr(st *State, s *SliceV, arr *StructV) {
	st.heap[s.Obj] = x.setPath(st.heap[s.Obj], s.Path, arr, nil)
}

// makeSliceFork handles make([]T, n) with symbolic n: allocation obligation, then case split 0..MakeSplit.
func (x *Exec) makeSliceFork(st *State, fr *Frame, t *ssa.MakeSlice) []Result {
	tf := x.tf
	lt := x.get(st, fr, t.Len).(*Term)
	ct := x.get(st, fr, t.Cap).(*Term)
	if lt != ct {
		if !ct.IsConst() || !lt.IsConst() {
			// make([]T, n, c) with different symbolic len/cap: only constant cap or equal supported
			if !(lt.IsConst() && !ct.IsConst()) {
				panic(x.fault("make with distinct symbolic len and cap at %s", x.pos(t)))
			}
		}
	}
	sym := lt
	if lt.IsConst() {
		sym = ct
	}
	l64 := x.toBV64(sym, t.Len.Type())
	// Go panics for negative length or length beyond the address space.
	nonneg := tf.BVCmp(OSLe, tf.BV(0, 64), l64)
	x.addObl(st, "panic", "makeslice: len out of range (negative)", x.pos(t), nonneg)
	limit := x.cfg.AllocLimit
	within := tf.Implies(nonneg, tf.BVCmp(OSLe, l64, tf.BV(uint64(limit), 64)))
	x.addObl(st, "alloc", fmt.Sprintf("allocation of more than %d elements", limit), x.pos(t), within)
	et := t.Type().Underlying().(*types.Slice).Elem()
	var out []Result
	for n := 0; n <= x.cfg.MakeSplit; n++ {
		c := tf.Eq(l64, tf.BV(uint64(n), 64))
		if x.satPC(st, c) == "unsat" {
			continue
		}
		s2 := st.clone()
		s2.addPC(c)
		z := x.zero(et)
		ln, cp := n, n
		if lt.IsConst() {
			ln = int(lt.U)
		}
		f := make([]Value, cp)
		for i := range f {
			f[i] = z
		}
		id := s2.alloc(&StructV{F: f})
		out = append(out, Result{St: s2, Val: &SliceV{Obj: id, Len: ln, Cap: cp}})
	}
	// lengths above the split bound are outside the stated bound
	x.Stats.Cut++
	x.notes = appendUnique(x.notes, fmt.Sprintf("make at %s: element counts > %d not explored (stated bound)", x.pos(t), x.cfg.MakeSplit))
	return out
}

func appendUnique(l []string, s string) []string {
	for _, e := range l {
		if e == s {
			return l
		}
	}
	return append(l, s)
}

// ---------- builtins

func (x *Exec) builtin(st *State, fr *Frame, b *ssa.Builtin, c *ssa.CallCommon, args []Value, site ssa.Instruction) []Result {
	tf := x.tf
	one := func(v Value) []Result { return []Result{{St: st, Val: v}} }
	switch b.Name() {
	case "len":
		switch a := args[0].(type) {
		case *SliceV:
			return one(tf.BV(uint64(a.Len), 64))
		case *StrV:
			return one(tf.BV(uint64(len(a.S)), 64))
		case *StructV:
			return one(tf.BV(uint64(len(a.F)), 64))
		case *MapV:
			if a.Obj == 0 {
				return one(tf.BV(0, 64))
			}
			return one(tf.BV(uint64(len(st.heap[a.Obj].(*MapObj).Keys)), 64))
		case *PtrV:
			at := c.Args[0].Type().Underlying().(*types.Pointer).Elem().Underlying().(*types.Array)
			return one(tf.BV(uint64(at.Len()), 64))
		}
	case "cap":
		switch a := args[0].(type) {
		case *SliceV:
			return one(tf.BV(uint64(a.Cap), 64))
		case *StructV:
			return one(tf.BV(uint64(len(a.F)), 64))
		}
	case "append":
		s := args[0].(*SliceV)
		var add []Value
		switch e := args[1].(type) {
		case *SliceV:
			for i := 0; i < e.Len; i++ {
				add = append(add, x.sliceElem(st, e, i))
			}
		case *StrV:
			for i := 0; i < len(e.S); i++ {
				add = append(add, tf.BV(uint64(e.S[i]), 8))
			}
		default:
			panic(x.fault("append of %T", args[1]))
		}
		if len(add) == 0 {
			return one(s)
		}
		if s.Obj != 0 && s.Len+len(add) <= s.Cap {
			arr := x.sliceArr(st, s)
			f := append([]Value(nil), arr.F...)
			for i, v := range add {
				f[s.Off+s.Len+i] = v
			}
			x.setSliceArr(st, s, &StructV{F: f})
			return one(&SliceV{Obj: s.Obj, Path: s.Path, Off: s.Off, Len: s.Len + len(add), Cap: s.Cap})
		}
		n := s.Len + len(add)
		ncap := n
		if s.Cap*2 > ncap && s.Cap < 64 {
			ncap = s.Cap * 2
		}
		f := make([]Value, ncap)
		for i := 0; i < s.Len; i++ {
			f[i] = x.sliceElem(st, s, i)
		}
		copy(f[s.Len:], add)
		if ncap > n {
			et := c.Args[0].Type().Underlying().(*types.Slice).Elem()
			z := x.zero(et)
			for i := n; i < ncap; i++ {
				f[i] = z
			}
		}
		id := st.alloc(&StructV{F: f})
		return one(&SliceV{Obj: id, Len: n, Cap: ncap})
	case "copy":
		d := args[0].(*SliceV)
		var src []Value
		switch e := args[1].(type) {
		case *SliceV:
			for i := 0; i < e.Len; i++ {
				src = append(src, x.sliceElem(st, e, i))
			}
		case *StrV:
			for i := 0; i < len(e.S); i++ {
				src = append(src, tf.BV(uint64(e.S[i]), 8))
			}
		}
		n := len(src)
		if d.Len < n {
			n = d.Len
		}
		if n > 0 {
			arr := x.sliceArr(st, d)
			f := append([]Value(nil), arr.F...)
			for i := 0; i < n; i++ {
				f[d.Off+i] = src[i]
			}
			x.setSliceArr(st, d, &StructV{F: f})
		}
		return one(tf.BV(uint64(n), 64))
	case "delete":
		m := args[0].(*MapV)
		if m.Obj != 0 {
			mo := st.heap[m.Obj].(*MapObj)
			nm := &MapObj{}
			for i, k := range mo.Keys {
				if !x.keyEq(k, args[1], site) {
					nm.Keys = append(nm.Keys, k)
					nm.Vals = append(nm.Vals, mo.Vals[i])
				}
			}
			st.heap[m.Obj] = nm
		}
		return one(nil)
	case "print", "println":
		return one(nil)
	case "ssa:wrapnilchk":
		if p, ok := args[0].(*PtrV); ok && p.Obj == 0 {
			x.addObl(st, "panic", "value method called using nil pointer", x.pos(site), tf.False)
			return nil
		}
		return one(args[0])
	case "recover":
		return one(&IfaceV{})
	case "min", "max":
		acc := args[0].(*Term)
		for _, a := range args[1:] {
			t := a.(*Term)
			var lt *Term
			if acc.S.K == KFloat {
				lt = tf.FCmp(OFLt, t, acc)
			} else if isSigned(c.Args[0].Type()) {
				lt = tf.BVCmp(OSLt, t, acc)
			} else {
				lt = tf.BVCmp(OULt, t, acc)
			}
			if b.Name() == "max" {
				if acc.S.K == KFloat {
					lt = tf.FCmp(OFLt, acc, t)
				} else if isSigned(c.Args[0].Type()) {
					lt = tf.BVCmp(OSLt, acc, t)
				} else {
					lt = tf.BVCmp(OULt, acc, t)
				}
			}
			acc = tf.Ite(lt, t, acc)
		}
		return one(acc)
	case "clear":
		switch a := args[0].(type) {
		case *MapV:
			if a.Obj != 0 {
				st.heap[a.Obj] = &MapObj{}
			}
			return one(nil)
		}
	}
	panic(x.fault("unsupported builtin %s at %s", b.Name(), x.pos(site)))
}
