package sx

import (
	"fmt"
	"time"
	"go/types"
	"math"
	"strings"

	"golang.org/x/tools/go/ssa"
)

type intrinsicFn func(x *Exec, st *State, fr *Frame, args []Value, site ssa.Instruction) []Result

func ret1(st *State, v Value) []Result { return []Result{{St: st, Val: v}} }

func (x *Exec) intrinsic(name string, fn *ssa.Function) intrinsicFn {
	if i := strings.Index(name, ".vrT)."); i >= 0 {
		m := name[i+len(".vrT)."):]
		if h, ok := vrIntrinsics[m]; ok {
			return h
		}
		panic(x.fault("unknown vr method %s", m))
	}
	if h, ok := intrinsics[name]; ok {
		return h
	}
	if strings.HasPrefix(name, "math.") {
		if fn.Blocks == nil {
			panic(x.fault("no intrinsic for %s", name))
		}
	}
	if strings.HasPrefix(name, "(*math/big.Float).") || strings.HasPrefix(name, "math/big.") {
		if h := bigIntrinsic(name); h != nil {
			return h
		}
		panic(x.fault("no intrinsic for %s", name))
	}
	return nil
}

func (x *Exec) newInput(st *State, name string, s Sort) *Term {
	k := st.counters[name]
	st.counters[name] = k + 1
	full := name
	if k > 0 {
		full = fmt.Sprintf("%s#%d", name, k)
	}
	v := x.tf.Var(full, s)
	st.inputs = append(st.inputs, v)
	return v
}

func strArg(v Value) string {
	s, ok := v.(*StrV)
	if !ok {
		panic(&Fault{Msg: "vr: name/label argument must be a constant string"})
	}
	return s.S
}

func intArg(v Value) int64 {
	t := v.(*Term)
	if !t.IsConst() {
		panic(&Fault{Msg: "vr: argument must be a concrete integer"})
	}
	return sext(t.U, t.S.W)
}

func (x *Exec) fillValue(st *State, name string, t types.Type) Value {
	switch u := t.Underlying().(type) {
	case *types.Basic:
		switch {
		case u.Info()&types.IsBoolean != 0:
			return x.newInput(st, name, SBool)
		case u.Info()&types.IsInteger != 0:
			return x.newInput(st, name, SBV(intWidth(u)))
		case u.Info()&types.IsFloat != 0:
			return x.newFloatInput(st, name)
		}
	case *types.Struct:
		f := make([]Value, u.NumFields())
		for i := range f {
			f[i] = x.fillValue(st, fmt.Sprintf("%s.%s", name, u.Field(i).Name()), u.Field(i).Type())
		}
		return &StructV{F: f}
	case *types.Array:
		f := make([]Value, int(u.Len()))
		for i := range f {
			f[i] = x.fillValue(st, fmt.Sprintf("%s.%d", name, i), u.Elem())
		}
		return &StructV{F: f}
	}
	panic(x.fault("vr.Fill: unsupported type %v for %s", t, name))
}

// newFloatInput creates a float input.  In BV-only harnesses it is a bit pattern.
func (x *Exec) newFloatInput(st *State, name string) *Term {
	if x.cfg.Dom == DomNone {
		b := x.newInput(st, name+"!bits", SBV(64))
		return x.tf.FFromBits(b)
	}
	return x.newInput(st, name, SFloat)
}

var vrIntrinsics map[string]intrinsicFn

func init() {
	scalar := func(s Sort) intrinsicFn {
		return func(x *Exec, st *State, fr *Frame, args []Value, site ssa.Instruction) []Result {
			return ret1(st, x.newInput(st, strArg(args[1]), s))
		}
	}
	vrIntrinsics = map[string]intrinsicFn{
		"Bool":   scalar(SBool),
		"Uint64": scalar(SBV(64)),
		"Int64":  scalar(SBV(64)),
		"Int":    scalar(SBV(64)),
		"Uint32": scalar(SBV(32)),
		"Int32":  scalar(SBV(32)),
		"Uint16": scalar(SBV(16)),
		"Uint8":  scalar(SBV(8)),
		"Int8":   scalar(SBV(8)),
		"Float64": func(x *Exec, st *State, fr *Frame, args []Value, site ssa.Instruction) []Result {
			return ret1(st, x.newFloatInput(st, strArg(args[1])))
		},
		"Fill": func(x *Exec, st *State, fr *Frame, args []Value, site ssa.Instruction) []Result {
			name := strArg(args[1])
			iv := args[2].(*IfaceV)
			p := iv.V.(*PtrV)
			et := iv.T.Underlying().(*types.Pointer).Elem()
			x.store(st, p, x.fillValue(st, name, et))
			return ret1(st, nil)
		},
		// Choose forks into one path per value in [lo,hi] (concrete per path).
		"Choose": func(x *Exec, st *State, fr *Frame, args []Value, site ssa.Instruction) []Result {
			name := strArg(args[1])
			lo, hi := intArg(args[2]), intArg(args[3])
			k := st.counters[name]
			full := name
			if k > 0 {
				full = fmt.Sprintf("%s#%d", name, k)
			}
			var out []Result
			for v := lo; v <= hi; v++ {
				s2 := st
				if v < hi {
					s2 = st.clone()
				}
				s2.counters[name] = k + 1
				s2.choices = append(s2.choices, Choice{Name: full, Val: v})
				out = append(out, Result{St: s2, Val: x.tf.BV(uint64(v), 64)})
			}
			return out
		},
		"Assume": func(x *Exec, st *State, fr *Frame, args []Value, site ssa.Instruction) []Result {
			c := args[1].(*Term)
			if c.IsFalse() {
				return nil
			}
			if c.IsTrue() {
				return ret1(st, nil)
			}
			if x.satPC(st, c) == "unsat" {
				return nil
			}
			st.addPC(c)
			return ret1(st, nil)
		},
		"Assert": func(x *Exec, st *State, fr *Frame, args []Value, site ssa.Instruction) []Result {
			label := strArg(args[1])
			c := args[2].(*Term)
			x.addObl(st, "assert", label, x.pos(site), c)
			if c.IsFalse() {
				return nil
			}
			st.addPC(c)
			return ret1(st, nil)
		},
		"Reach": func(x *Exec, st *State, fr *Frame, args []Value, site ssa.Instruction) []Result {
			x.addObl(st, "reach", strArg(args[1]), x.pos(site), x.tf.True)
			return ret1(st, nil)
		},
		"Cut": func(x *Exec, st *State, fr *Frame, args []Value, site ssa.Instruction) []Result {
			x.Stats.Cut++
			x.notes = appendUnique(x.notes, "cut: "+strArg(args[1]))
			return nil
		},
		"Domain": func(x *Exec, st *State, fr *Frame, args []Value, site ssa.Instruction) []Result {
			switch strArg(args[1]) {
			case "BV":
				x.cfg.Dom = DomNone
			case "FPX":
				x.cfg.Dom = DomFPX
			case "RUF":
				x.cfg.Dom = DomRUF
				x.cfg.FeasTimeout = 2 * time.Second // nonlinear path conditions: unknown = keep the path
			default:
				panic(x.fault("unknown domain"))
			}
			x.closeFeas()
			return ret1(st, nil)
		},
		"Unwind": func(x *Exec, st *State, fr *Frame, args []Value, site ssa.Instruction) []Result {
			x.cfg.Unwind = int(intArg(args[1]))
			return ret1(st, nil)
		},
		"MakeSplit": func(x *Exec, st *State, fr *Frame, args []Value, site ssa.Instruction) []Result {
			x.cfg.MakeSplit = int(intArg(args[1]))
			return ret1(st, nil)
		},
		"MergeAll": func(x *Exec, st *State, fr *Frame, args []Value, site ssa.Instruction) []Result {
			x.cfg.MergeAll = true
			return ret1(st, nil)
		},
		"NoUnderflow": func(x *Exec, st *State, fr *Frame, args []Value, site ssa.Instruction) []Result {
			x.tf.NoUnderflow = true
			return ret1(st, nil)
		},
		"FirstAnswer": func(x *Exec, st *State, fr *Frame, args []Value, site ssa.Instruction) []Result {
			x.cfg.FirstAnswer = true
			return ret1(st, nil)
		},
		"NoMerge": func(x *Exec, st *State, fr *Frame, args []Value, site ssa.Instruction) []Result {
			x.cfg.NoMerge = true
			return ret1(st, nil)
		},
		"Stub": func(x *Exec, st *State, fr *Frame, args []Value, site ssa.Instruction) []Result {
			target, stub := strArg(args[1]), strArg(args[2])
			pp := x.hpkg.Pkg.Path()
			var key string
			switch {
			case strings.Contains(target, "/"):
				key = target
			case !strings.HasPrefix(target, "(") && strings.Contains(target, "."):
				key = target // qualified function of a standard package, e.g. math.Exp
			case strings.HasPrefix(target, "(*"):
				key = "(*" + pp + "." + target[2:]
			case strings.HasPrefix(target, "("):
				key = "(" + pp + "." + target[1:]
			default:
				key = pp + "." + target
			}
			sf := x.hpkg.Func(stub)
			if sf == nil {
				panic(x.fault("vr.Stub: no function %s in %s", stub, pp))
			}
			x.stubs[key] = sf
			return ret1(st, nil)
		},
		"And": func(x *Exec, st *State, fr *Frame, args []Value, site ssa.Instruction) []Result {
			return ret1(st, x.tf.And(args[1].(*Term), args[2].(*Term)))
		},
		"Or": func(x *Exec, st *State, fr *Frame, args []Value, site ssa.Instruction) []Result {
			return ret1(st, x.tf.Or(args[1].(*Term), args[2].(*Term)))
		},
		"Implies": func(x *Exec, st *State, fr *Frame, args []Value, site ssa.Instruction) []Result {
			return ret1(st, x.tf.Implies(args[1].(*Term), args[2].(*Term)))
		},
		"IteU64": func(x *Exec, st *State, fr *Frame, args []Value, site ssa.Instruction) []Result {
			return ret1(st, x.tf.Ite(args[1].(*Term), args[2].(*Term), args[3].(*Term)))
		},
		"IteInt": func(x *Exec, st *State, fr *Frame, args []Value, site ssa.Instruction) []Result {
			return ret1(st, x.tf.Ite(args[1].(*Term), args[2].(*Term), args[3].(*Term)))
		},
		"IteF64": func(x *Exec, st *State, fr *Frame, args []Value, site ssa.Instruction) []Result {
			return ret1(st, x.tf.Ite(args[1].(*Term), args[2].(*Term), args[3].(*Term)))
		},
		"IteBool": func(x *Exec, st *State, fr *Frame, args []Value, site ssa.Instruction) []Result {
			return ret1(st, x.tf.Ite(args[1].(*Term), args[2].(*Term), args[3].(*Term)))
		},
		// SameBits: bit-pattern equality of two float64 (BV domain: patterns; RUF: real equality; FPX: bits)
		"SameBits": func(x *Exec, st *State, fr *Frame, args []Value, site ssa.Instruction) []Result {
			a, b := args[1].(*Term), args[2].(*Term)
			if x.cfg.Dom == DomRUF {
				return ret1(st, x.tf.FCmp(OFEq, a, b))
			}
			return ret1(st, x.tf.Eq(x.tf.FUn(OFBits, a), x.tf.FUn(OFBits, b)))
		},
		"Thorough": func(x *Exec, st *State, fr *Frame, args []Value, site ssa.Instruction) []Result {
			return ret1(st, x.tf.Bool(x.thorough))
		},
		"Symbolic": func(x *Exec, st *State, fr *Frame, args []Value, site ssa.Instruction) []Result {
			return ret1(st, x.tf.True)
		},
		"Note": func(x *Exec, st *State, fr *Frame, args []Value, site ssa.Instruction) []Result {
			x.assumptions[strArg(args[1])] = true
			return ret1(st, nil)
		},
		// ---- token-stream reader oracle (see DESIGN: byte stream abstraction)
		"TokByte": func(x *Exec, st *State, fr *Frame, args []Value, site ssa.Instruction) []Result {
			tf := x.tf
			if st.ghost["tok:eof"] != nil {
				return ret1(st, &StructV{F: []Value{tf.BV(0, 8), tf.False}})
			}
			s2 := st.clone()
			b := x.newInput(st, "tokb", SBV(8))
			st.trace = append(st.trace, "B:"+b.Name)
			s2.trace = append(s2.trace, "E")
			s2.ghost["tok:eof"] = tf.True
			return []Result{{St: st, Val: &StructV{F: []Value{b, tf.True}}}, {St: s2, Val: &StructV{F: []Value{tf.BV(0, 8), tf.False}}}}
		},
		"TokRead": func(x *Exec, st *State, fr *Frame, args []Value, site ssa.Instruction) []Result {
			tf := x.tf
			p := args[1].(*SliceV)
			if st.ghost["tok:eof"] != nil || p.Len == 0 {
				return ret1(st, tf.BV(0, 64))
			}
			var out []Result
			// eof
			s2 := st.clone()
			s2.trace = append(s2.trace, "E")
			s2.ghost["tok:eof"] = tf.True
			out = append(out, Result{St: s2, Val: tf.BV(0, 64)})
			// short read (first byte only)
			if p.Len > 1 {
				s3 := st.clone()
				b := x.newInput(s3, "tokb", SBV(8))
				arr := x.sliceArr(s3, p)
				f := append([]Value(nil), arr.F...)
				f[p.Off] = b
				x.setSliceArr(s3, p, &StructV{F: f})
				s3.trace = append(s3.trace, "B:"+b.Name, "E")
				s3.ghost["tok:eof"] = tf.True
				out = append(out, Result{St: s3, Val: tf.BV(^uint64(0), 64)})
			}
			// full read
			arr := x.sliceArr(st, p)
			f := append([]Value(nil), arr.F...)
			for i := 0; i < p.Len; i++ {
				b := x.newInput(st, "tokb", SBV(8))
				f[p.Off+i] = b
				st.trace = append(st.trace, "B:"+b.Name)
			}
			x.setSliceArr(st, p, &StructV{F: f})
			out = append(out, Result{St: st, Val: tf.BV(uint64(p.Len), 64)})
			return out
		},
		"TokUvarint": func(x *Exec, st *State, fr *Frame, args []Value, site ssa.Instruction) []Result {
			tf := x.tf
			mk := func(s *State, v *Term, code uint64) Result {
				return Result{St: s, Val: &StructV{F: []Value{v, tf.BV(code, 64)}}}
			}
			if st.ghost["tok:eof"] != nil {
				return []Result{mk(st, tf.BV(0, 64), 1)}
			}
			var out []Result
			s1 := st.clone()
			s1.trace = append(s1.trace, "E")
			s1.ghost["tok:eof"] = tf.True
			out = append(out, mk(s1, tf.BV(0, 64), 1))
			s2 := st.clone()
			s2.trace = append(s2.trace, "X:80", "E")
			s2.ghost["tok:eof"] = tf.True
			out = append(out, mk(s2, tf.BV(0, 64), 2))
			s3 := st.clone()
			s3.trace = append(s3.trace, "X:ffffffffffffffffffff", "E")
			s3.ghost["tok:eof"] = tf.True
			out = append(out, mk(s3, tf.BV(0, 64), 3))
			v := x.newInput(st, "tokv", SBV(64))
			st.trace = append(st.trace, "V:"+v.Name)
			out = append(out, mk(st, v, 0))
			return out
		},
		// UF9: uninterpreted integer-valued function of nine floats (oracle for exact predicates)
		"UF9": func(x *Exec, st *State, fr *Frame, args []Value, site ssa.Instruction) []Result {
			var ts []*Term
			for _, a := range args[2:] {
				ts = append(ts, a.(*Term))
			}
			return ret1(st, x.tf.UF("uf_"+strArg(args[1]), SBV(64), ts...))
		},
		// UFF9: uninterpreted float-valued function of nine floats
		"UFF9": func(x *Exec, st *State, fr *Frame, args []Value, site ssa.Instruction) []Result {
			var ts []*Term
			for _, a := range args[2:] {
				ts = append(ts, a.(*Term))
			}
			return ret1(st, x.tf.FFun("uf_"+strArg(args[1]), ts...))
		},
		// exact real arithmetic for reference models written over float64 (RUF only)
		"RAdd": func(x *Exec, st *State, fr *Frame, args []Value, site ssa.Instruction) []Result {
			return ret1(st, x.tf.FFun("exact_add", args[1].(*Term), args[2].(*Term)))
		},
		"RSub": func(x *Exec, st *State, fr *Frame, args []Value, site ssa.Instruction) []Result {
			return ret1(st, x.tf.FFun("exact_sub", args[1].(*Term), args[2].(*Term)))
		},
		"ConcRun": concRunIntrinsic,
		"Stream": func(x *Exec, st *State, fr *Frame, args []Value, site ssa.Instruction) []Result {
			return ret1(st, &SliceV{})
		},
		"Trace": func(x *Exec, st *State, fr *Frame, args []Value, site ssa.Instruction) []Result {
			return ret1(st, nil)
		},
	}
}

var intrinsics map[string]intrinsicFn

func f1(name string) intrinsicFn {
	return func(x *Exec, st *State, fr *Frame, args []Value, site ssa.Instruction) []Result {
		return ret1(st, x.tf.FFun(name, args[0].(*Term)))
	}
}

func f2(name string) intrinsicFn {
	return func(x *Exec, st *State, fr *Frame, args []Value, site ssa.Instruction) []Result {
		return ret1(st, x.tf.FFun(name, args[0].(*Term), args[1].(*Term)))
	}
}

func (x *Exec) fIsNeg(a *Term) *Term {
	// sign bit (−0 counts as negative in FPX; RUF identifies ±0)
	if a.IsConst() {
		return x.tf.Bool(math.Signbit(a.F))
	}
	if x.cfg.Dom == DomRUF {
		return x.tf.FCmp(OFLt, a, x.tf.Float(0))
	}
	b := x.tf.FUn(OFBits, a)
	return x.tf.Eq(x.tf.Extract(b, 63, 63), x.tf.BV(1, 1))
}

func (x *Exec) fMaxMin(a, b *Term, isMax bool) *Term {
	tf := x.tf
	if a.IsConst() && b.IsConst() {
		if isMax {
			return tf.Float(math.Max(a.F, b.F))
		}
		return tf.Float(math.Min(a.F, b.F))
	}
	var pick *Term
	if isMax {
		pick = tf.Ite(tf.FCmp(OFLt, b, a), a, b)
	} else {
		pick = tf.Ite(tf.FCmp(OFLt, a, b), a, b)
	}
	if x.cfg.Dom == DomRUF {
		return pick
	}
	zero := tf.Float(0)
	bothZero := tf.And(tf.FCmp(OFEq, a, zero), tf.FCmp(OFEq, b, zero))
	var zpick *Term
	if isMax {
		zpick = tf.Ite(x.fIsNeg(a), b, a)
	} else {
		zpick = tf.Ite(x.fIsNeg(a), a, b)
	}
	nan := tf.Or(tf.FUn(OFIsNaN, a), tf.FUn(OFIsNaN, b))
	inf := math.Inf(1)
	if !isMax {
		inf = math.Inf(-1)
	}
	isInf := tf.Or(tf.FCmp(OFEq, a, tf.Float(inf)), tf.FCmp(OFEq, b, tf.Float(inf)))
	return tf.Ite(isInf, tf.Float(inf), tf.Ite(nan, tf.Float(math.NaN()), tf.Ite(bothZero, zpick, pick)))
}

func bitScan(x *Exec, v *Term, trailing bool) *Term {
	tf := x.tf
	w := v.S.W
	if v.IsConst() {
		n := 0
		if trailing {
			for n < w && v.U&(1<<uint(n)) == 0 {
				n++
			}
		} else {
			for n < w && v.U&(1<<uint(w-1-n)) == 0 {
				n++
			}
		}
		return tf.BV(uint64(n), 64)
	}
	res := tf.BV(uint64(w), 64)
	for i := w - 1; i >= 0; i-- {
		bit := i
		if !trailing {
			bit = w - 1 - i
		}
		c := tf.Eq(tf.Extract(v, bit, bit), tf.BV(1, 1))
		res = tf.Ite(c, tf.BV(uint64(i), 64), res)
	}
	return res
}

func init() {
	intrinsics = map[string]intrinsicFn{
		"math.Abs": func(x *Exec, st *State, fr *Frame, args []Value, site ssa.Instruction) []Result {
			return ret1(st, x.tf.FUn(OFAbs, args[0].(*Term)))
		},
		"math.Sqrt": func(x *Exec, st *State, fr *Frame, args []Value, site ssa.Instruction) []Result {
			return ret1(st, x.tf.FUn(OFSqrt, args[0].(*Term)))
		},
		"math.sqrt": func(x *Exec, st *State, fr *Frame, args []Value, site ssa.Instruction) []Result {
			return ret1(st, x.tf.FUn(OFSqrt, args[0].(*Term)))
		},
		"math.Max": func(x *Exec, st *State, fr *Frame, args []Value, site ssa.Instruction) []Result {
			return ret1(st, x.fMaxMin(args[0].(*Term), args[1].(*Term), true))
		},
		"math.Min": func(x *Exec, st *State, fr *Frame, args []Value, site ssa.Instruction) []Result {
			return ret1(st, x.fMaxMin(args[0].(*Term), args[1].(*Term), false))
		},
		"math.Sin": f1("sin"), "math.Cos": f1("cos"), "math.Tan": f1("tan"),
		"math.Asin": f1("asin"), "math.Acos": f1("acos"), "math.Atan": f1("atan"), "math.Atan2": f2("atan2"),
		"math.Exp": f1("exp"), "math.Log": f1("log"), "math.Log2": f1("log2"), "math.Log10": f1("log10"), "math.Sinh": f1("sinh"),
		"math.Floor": f1("floor"), "math.Ceil": f1("ceil"), "math.Trunc": f1("trunc"), "math.Round": f1("round"), "math.RoundToEven": f1("rint"),
		"math.Remainder": f2("remainder"), "math.Mod": f2("mod"), "math.Hypot": f2("hypot"), "math.Pow": f2("pow"), "math.Cbrt": f1("cbrt"),
		"math.Copysign": func(x *Exec, st *State, fr *Frame, args []Value, site ssa.Instruction) []Result {
			a, b := args[0].(*Term), args[1].(*Term)
			ab := x.tf.FUn(OFAbs, a)
			return ret1(st, x.tf.Ite(x.fIsNeg(b), x.tf.FUn(OFNeg, ab), ab))
		},
		"math.Signbit": func(x *Exec, st *State, fr *Frame, args []Value, site ssa.Instruction) []Result {
			return ret1(st, x.fIsNeg(args[0].(*Term)))
		},
		"math.IsNaN": func(x *Exec, st *State, fr *Frame, args []Value, site ssa.Instruction) []Result {
			return ret1(st, x.tf.FUn(OFIsNaN, args[0].(*Term)))
		},
		"math.IsInf": func(x *Exec, st *State, fr *Frame, args []Value, site ssa.Instruction) []Result {
			a := args[0].(*Term)
			sgn := intArg(args[1])
			tf := x.tf
			switch {
			case sgn > 0:
				return ret1(st, tf.FCmp(OFEq, a, tf.Float(math.Inf(1))))
			case sgn < 0:
				return ret1(st, tf.FCmp(OFEq, a, tf.Float(math.Inf(-1))))
			}
			return ret1(st, tf.Or(tf.FCmp(OFEq, a, tf.Float(math.Inf(1))), tf.FCmp(OFEq, a, tf.Float(math.Inf(-1)))))
		},
		"math.Inf": func(x *Exec, st *State, fr *Frame, args []Value, site ssa.Instruction) []Result {
			if intArg(args[0]) >= 0 {
				return ret1(st, x.tf.Float(math.Inf(1)))
			}
			return ret1(st, x.tf.Float(math.Inf(-1)))
		},
		"math.NaN": func(x *Exec, st *State, fr *Frame, args []Value, site ssa.Instruction) []Result {
			return ret1(st, x.tf.Float(math.NaN()))
		},
		"math.Float64bits": func(x *Exec, st *State, fr *Frame, args []Value, site ssa.Instruction) []Result {
			return ret1(st, x.tf.FUn(OFBits, args[0].(*Term)))
		},
		"math.Float64frombits": func(x *Exec, st *State, fr *Frame, args []Value, site ssa.Instruction) []Result {
			return ret1(st, x.tf.FFromBits(args[0].(*Term)))
		},
		"math.Ldexp": func(x *Exec, st *State, fr *Frame, args []Value, site ssa.Instruction) []Result {
			a := args[0].(*Term)
			e := args[1].(*Term)
			if !e.IsConst() {
				panic(x.fault("math.Ldexp with symbolic exponent at %s", x.pos(site)))
			}
			k := int(sext(e.U, 64))
			if a.IsConst() {
				return ret1(st, x.tf.Float(math.Ldexp(a.F, k)))
			}
			return ret1(st, x.tf.FBin(OFMul, a, x.tf.Float(math.Ldexp(1, k))))
		},
		"math.Pow10": func(x *Exec, st *State, fr *Frame, args []Value, site ssa.Instruction) []Result {
			return ret1(st, x.tf.Float(math.Pow10(int(intArg(args[0])))))
		},
		"math.Ilogb": func(x *Exec, st *State, fr *Frame, args []Value, site ssa.Instruction) []Result {
			a := args[0].(*Term)
			if a.IsConst() {
				return ret1(st, x.tf.BV(uint64(int64(math.Ilogb(a.F))), 64))
			}
			return ret1(st, x.tf.UF("ilogb", SBV(64), a))
		},
		"math.Modf": func(x *Exec, st *State, fr *Frame, args []Value, site ssa.Instruction) []Result {
			a := args[0].(*Term)
			ip := x.tf.FFun("trunc", a)
			return ret1(st, &StructV{F: []Value{ip, x.tf.FBin(OFSub, a, ip)}})
		},
		"math.Nextafter": f2("nextafter"),
		"math/bits.TrailingZeros64": func(x *Exec, st *State, fr *Frame, args []Value, site ssa.Instruction) []Result {
			return ret1(st, bitScan(x, args[0].(*Term), true))
		},
		"math/bits.LeadingZeros64": func(x *Exec, st *State, fr *Frame, args []Value, site ssa.Instruction) []Result {
			return ret1(st, bitScan(x, args[0].(*Term), false))
		},
		"math/bits.TrailingZeros32": func(x *Exec, st *State, fr *Frame, args []Value, site ssa.Instruction) []Result {
			return ret1(st, bitScan(x, args[0].(*Term), true))
		},
		"math/bits.LeadingZeros32": func(x *Exec, st *State, fr *Frame, args []Value, site ssa.Instruction) []Result {
			return ret1(st, bitScan(x, args[0].(*Term), false))
		},
		"math/bits.Len64": func(x *Exec, st *State, fr *Frame, args []Value, site ssa.Instruction) []Result {
			lz := bitScan(x, args[0].(*Term), false)
			return ret1(st, x.tf.BVBin(OSub, x.tf.BV(64, 64), lz))
		},
		"fmt.Errorf": func(x *Exec, st *State, fr *Frame, args []Value, site ssa.Instruction) []Result {
			return ret1(st, x.opaqueErr("error@"+x.pos(site)))
		},
		"errors.New": func(x *Exec, st *State, fr *Frame, args []Value, site ssa.Instruction) []Result {
			return ret1(st, x.opaqueErr("error@"+x.pos(site)))
		},
		"fmt.Sprintf": func(x *Exec, st *State, fr *Frame, args []Value, site ssa.Instruction) []Result {
			return ret1(st, &StrV{S: "<sprintf@" + x.pos(site) + ">"})
		},
		"fmt.Print": func(x *Exec, st *State, fr *Frame, args []Value, site ssa.Instruction) []Result {
			return ret1(st, &StructV{F: []Value{x.tf.BV(0, 64), &IfaceV{}}})
		},
		"fmt.Println": func(x *Exec, st *State, fr *Frame, args []Value, site ssa.Instruction) []Result {
			return ret1(st, &StructV{F: []Value{x.tf.BV(0, 64), &IfaceV{}}})
		},
		"fmt.Printf": func(x *Exec, st *State, fr *Frame, args []Value, site ssa.Instruction) []Result {
			return ret1(st, &StructV{F: []Value{x.tf.BV(0, 64), &IfaceV{}}})
		},
		"io.ReadFull":            ioReadFull,
		"encoding/binary.Read":   binaryRead,
		"encoding/binary.Write":  binaryWrite,
		"sort.Slice":             sortSlice,
		"sort.Sort":              sortSort,
		"sort.Ints":              sortInts,
		"sync/atomic.LoadInt32": func(x *Exec, st *State, fr *Frame, args []Value, site ssa.Instruction) []Result {
			p := args[0].(*PtrV)
			if x.concShared(p.Obj) {
				loc := locOf(p)
				if _, ok := x.conc.init[loc]; !ok {
					x.conc.init[loc] = x.load(x.conc.entry, p).(*Term)
				}
				x.conc.nLocal++
				name := fmt.Sprintf("ald!%d", x.conc.nLocal)
				x.conc.local[name] = true
				v := x.tf.Var(name, SBV(32))
				x.concLog(st, "AL", loc, v, site)
				return ret1(st, v)
			}
			return ret1(st, x.load(st, p))
		},
		"sync/atomic.StoreInt32": func(x *Exec, st *State, fr *Frame, args []Value, site ssa.Instruction) []Result {
			p := args[0].(*PtrV)
			if x.concShared(p.Obj) {
				loc := locOf(p)
				if _, ok := x.conc.init[loc]; !ok {
					x.conc.init[loc] = x.load(x.conc.entry, p).(*Term)
				}
				x.concLog(st, "AS", loc, args[1].(*Term), site)
			}
			x.store(st, p, args[1])
			return ret1(st, nil)
		},
		"(*sync.RWMutex).Lock":    mutexOp("Lock"),
		"(*sync.RWMutex).Unlock":  mutexOp("Unlock"),
		"(*sync.RWMutex).RLock":   mutexOp("RLock"),
		"(*sync.RWMutex).RUnlock": mutexOp("RUnlock"),
		"(*sync.Mutex).Lock":      mutexOp("Lock"),
		"(*sync.Mutex).Unlock":    mutexOp("Unlock"),
	}
}

// mutexOp models a mutex as a ghost counter per mutex object; Lock on a held mutex by the
// (single) executing thread is a self-deadlock obligation.
func mutexOp(op string) intrinsicFn {
	return func(x *Exec, st *State, fr *Frame, args []Value, site ssa.Instruction) []Result {
		p := args[0].(*PtrV)
		if x.concShared(p.Obj) {
			k := "L"
			if op == "Unlock" || op == "RUnlock" {
				k = "U"
			}
			x.concLog(st, k, fmt.Sprintf("mu:o%d%v", p.Obj, p.Path), nil, site)
		}
		key := fmt.Sprintf("mutex:%d%v", p.Obj, p.Path)
		held, _ := st.ghost[key].(*Term)
		if held == nil {
			held = x.tf.False
		}
		switch op {
		case "Lock", "RLock":
			x.addObl(st, "assert", "self-deadlock: "+op+" on a mutex already held by this thread", x.pos(site), x.tf.Not(held))
			if held.IsTrue() {
				return nil
			}
			st.addPC(x.tf.Not(held))
			st.ghost[key] = x.tf.True
		default:
			st.ghost[key] = x.tf.False
		}
		return ret1(st, nil)
	}
}

// ---------- io / encoding/binary

// callMethod invokes method name on an interface value.
func (x *Exec) callMethod(st *State, fr *Frame, recv Value, name string, args []Value, site ssa.Instruction) []Result {
	iv, ok := recv.(*IfaceV)
	if !ok || iv.T == nil {
		x.addObl(st, "panic", "nil interface method call ("+name+")", x.pos(site), x.tf.False)
		return nil
	}
	fn := x.prog.LookupMethod(iv.T, nil, name)
	if fn == nil {
		// unexported or package-qualified: search method set
		ms := x.prog.MethodSets.MethodSet(iv.T)
		for i := 0; i < ms.Len(); i++ {
			if ms.At(i).Obj().Name() == name {
				fn = x.prog.MethodValue(ms.At(i))
			}
		}
	}
	if fn == nil {
		panic(x.fault("no method %s on %v", name, iv.T))
	}
	return x.callFn(st, fr, fn, append([]Value{iv.V}, args...), nil, site)
}

func ioReadFull(x *Exec, st *State, fr *Frame, args []Value, site ssa.Instruction) []Result {
	buf := args[1].(*SliceV)
	rs := x.callMethod(st, fr, args[0], "Read", []Value{buf}, site)
	var out []Result
	for _, r := range rs {
		tv := r.Val.(*StructV)
		n := tv.F[0].(*Term)
		if !n.IsConst() {
			panic(x.fault("io.ReadFull: reader returned symbolic count at %s", x.pos(site)))
		}
		var err Value
		switch {
		case int(n.U) >= buf.Len:
			err = &IfaceV{}
		case n.U == 0:
			err = tv.F[1]
			if e, ok := err.(*IfaceV); !ok || e.T == nil {
				err = x.opaqueErr("io.ErrNoProgress")
			}
		default:
			err = x.globalErr(r.St, "io", "ErrUnexpectedEOF")
		}
		out = append(out, Result{St: r.St, Val: &StructV{F: []Value{n, err}}})
	}
	return out
}

func (x *Exec) globalErr(st *State, pkg, name string) Value {
	for _, p := range x.prog.AllPackages() {
		if p.Pkg.Path() == pkg {
			if g, ok := p.Members[name].(*ssa.Global); ok {
				id := x.globalID(g)
				x.ensureGlobal(st, id)
				return st.heap[id]
			}
		}
	}
	return x.opaqueErr(pkg + "." + name)
}

func fixedSize(t types.Type) int {
	switch u := t.Underlying().(type) {
	case *types.Basic:
		switch u.Kind() {
		case types.Bool, types.Int8, types.Uint8:
			return 1
		case types.Int16, types.Uint16:
			return 2
		case types.Int32, types.Uint32, types.Float32:
			return 4
		case types.Int64, types.Uint64, types.Float64:
			return 8
		}
	case *types.Array:
		e := fixedSize(u.Elem())
		if e < 0 {
			return -1
		}
		return e * int(u.Len())
	case *types.Struct:
		n := 0
		for i := 0; i < u.NumFields(); i++ {
			e := fixedSize(u.Field(i).Type())
			if e < 0 {
				return -1
			}
			n += e
		}
		return n
	}
	return -1
}

// decodeLE builds a value of type t from little-endian bytes.
func (x *Exec) decodeLE(t types.Type, bs []*Term) (Value, []*Term) {
	tf := x.tf
	switch u := t.Underlying().(type) {
	case *types.Basic:
		n := fixedSize(t)
		v := bs[0]
		for i := 1; i < n; i++ {
			v = tf.Concat(bs[i], v)
		}
		rest := bs[n:]
		switch {
		case u.Kind() == types.Bool:
			return tf.Not(tf.Eq(v, tf.BV(0, 8))), rest
		case u.Kind() == types.Float64:
			return tf.FFromBits(v), rest
		case u.Kind() == types.Float32:
			panic(x.fault("float32 decode unsupported"))
		}
		return v, rest
	case *types.Array:
		f := make([]Value, int(u.Len()))
		for i := range f {
			f[i], bs = x.decodeLE(u.Elem(), bs)
		}
		return &StructV{F: f}, bs
	case *types.Struct:
		f := make([]Value, u.NumFields())
		for i := range f {
			f[i], bs = x.decodeLE(u.Field(i).Type(), bs)
		}
		return &StructV{F: f}, bs
	}
	panic(x.fault("decodeLE: unsupported type %v", t))
}

func (x *Exec) encodeLE(t types.Type, v Value, out []*Term) []*Term {
	tf := x.tf
	switch u := t.Underlying().(type) {
	case *types.Basic:
		tv := v.(*Term)
		switch {
		case u.Kind() == types.Bool:
			return append(out, tf.Ite(tv, tf.BV(1, 8), tf.BV(0, 8)))
		case u.Kind() == types.Float64:
			tv = tf.FUn(OFBits, tv)
		case u.Kind() == types.Float32:
			panic(x.fault("float32 encode unsupported"))
		}
		n := fixedSize(t)
		for i := 0; i < n; i++ {
			out = append(out, tf.Extract(tv, 8*i+7, 8*i))
		}
		return out
	case *types.Array:
		sv := v.(*StructV)
		for i := range sv.F {
			out = x.encodeLE(u.Elem(), sv.F[i], out)
		}
		return out
	case *types.Struct:
		sv := v.(*StructV)
		for i := range sv.F {
			out = x.encodeLE(u.Field(i).Type(), sv.F[i], out)
		}
		return out
	}
	panic(x.fault("encodeLE: unsupported type %v", t))
}

func binaryRead(x *Exec, st *State, fr *Frame, args []Value, site ssa.Instruction) []Result {
	data := args[2].(*IfaceV)
	pt, ok := data.T.Underlying().(*types.Pointer)
	var et types.Type
	var dstSlice *SliceV
	if ok {
		et = pt.Elem()
	} else if sl, ok := data.T.Underlying().(*types.Slice); ok {
		dstSlice = data.V.(*SliceV)
		et = types.NewArray(sl.Elem(), int64(dstSlice.Len))
	} else {
		panic(x.fault("binary.Read into %v unsupported at %s", data.T, x.pos(site)))
	}
	n := fixedSize(et)
	if n < 0 {
		panic(x.fault("binary.Read: non fixed-size type %v", et))
	}
	z := x.tf.BV(0, 8)
	f := make([]Value, n)
	for i := range f {
		f[i] = z
	}
	id := st.alloc(&StructV{F: f})
	buf := &SliceV{Obj: id, Len: n, Cap: n}
	rs := ioReadFull(x, st, fr, []Value{args[0], buf}, site)
	var out []Result
	for _, r := range rs {
		tv := r.Val.(*StructV)
		err := tv.F[1].(*IfaceV)
		if err.T == nil {
			bs := make([]*Term, n)
			for i := 0; i < n; i++ {
				bs[i] = x.sliceElem(r.St, buf, i).(*Term)
			}
			v, _ := x.decodeLE(et, bs)
			if dstSlice != nil {
				arr := x.sliceArr(r.St, dstSlice)
				nf := append([]Value(nil), arr.F...)
				for i, e := range v.(*StructV).F {
					nf[dstSlice.Off+i] = e
				}
				x.setSliceArr(r.St, dstSlice, &StructV{F: nf})
			} else {
				x.store(r.St, data.V.(*PtrV), v)
			}
		}
		delete(r.St.heap, id)
		out = append(out, Result{St: r.St, Val: err})
	}
	return out
}

func binaryWrite(x *Exec, st *State, fr *Frame, args []Value, site ssa.Instruction) []Result {
	data := args[2].(*IfaceV)
	t := data.T
	v := data.V
	if pt, ok := t.Underlying().(*types.Pointer); ok {
		t = pt.Elem()
		v = x.load(st, v.(*PtrV))
	}
	if sl, ok := t.Underlying().(*types.Slice); ok {
		s := v.(*SliceV)
		f := make([]Value, s.Len)
		for i := range f {
			f[i] = x.sliceElem(st, s, i)
		}
		t = types.NewArray(sl.Elem(), int64(s.Len))
		v = &StructV{F: f}
	}
	if fixedSize(t) < 0 {
		panic(x.fault("binary.Write of %v unsupported at %s", t, x.pos(site)))
	}
	bs := x.encodeLE(t, v, nil)
	f := make([]Value, len(bs))
	for i, b := range bs {
		f[i] = b
	}
	id := st.alloc(&StructV{F: f})
	buf := &SliceV{Obj: id, Len: len(f), Cap: len(f)}
	rs := x.callMethod(st, fr, args[0], "Write", []Value{buf}, site)
	var out []Result
	for _, r := range rs {
		tv := r.Val.(*StructV)
		out = append(out, Result{St: r.St, Val: tv.F[1]})
	}
	return out
}

// ---------- sorting: bubble network executing the real comparison code

func (x *Exec) condSwapElems(st *State, s *SliceV, i, j int, c *Term) {
	arr := x.sliceArr(st, s)
	f := append([]Value(nil), arr.F...)
	a, b := f[s.Off+i], f[s.Off+j]
	f[s.Off+i] = x.iteValue(c, b, a)
	f[s.Off+j] = x.iteValue(c, a, b)
	x.setSliceArr(st, s, &StructV{F: f})
}

func (x *Exec) canIteElems(st *State, s *SliceV, i, j int) bool {
	arr := x.sliceArr(st, s)
	_, ok := x.tryIte(x.tf.Var("!probe", SBool), arr.F[s.Off+i], arr.F[s.Off+j])
	return ok
}

func sortSlice(x *Exec, st *State, fr *Frame, args []Value, site ssa.Instruction) []Result {
	s := args[0].(*IfaceV).V.(*SliceV)
	less := args[1]
	n := s.Len
	if n > 64 {
		panic(x.fault("sort.Slice of %d elements exceeds the network bound 64 at %s", n, x.pos(site)))
	}
	x.assumptions["sort.Slice modelled as a compare-exchange (bubble) network running the real less function"] = true
	states := []*State{st}
	for pass := 0; pass < n; pass++ {
		for j := 0; j+1 < n-pass; j++ {
			var next []*State
			for _, s0 := range states {
				rs := x.callValue(s0, fr, less, []Value{x.tf.BV(uint64(j+1), 64), x.tf.BV(uint64(j), 64)}, site)
				for _, r := range rs {
					c := r.Val.(*Term)
					if !c.IsConst() && !x.canIteElems(r.St, s, j, j+1) {
						// elements are pointers or differently shaped: fork on the comparison
						rt, rf := x.satBoth(r.St, c)
						if rt != "unsat" {
							s1 := r.St
							if rf != "unsat" {
								s1 = r.St.clone()
							}
							s1.addPC(c)
							x.condSwapElems(s1, s, j, j+1, x.tf.True)
							next = append(next, s1)
						}
						if rf != "unsat" {
							r.St.addPC(x.tf.Not(c))
							next = append(next, r.St)
						}
						continue
					}
					x.condSwapElems(r.St, s, j, j+1, c)
					next = append(next, r.St)
				}
			}
			states = next
		}
	}
	var out []Result
	for _, s0 := range states {
		out = append(out, Result{St: s0})
	}
	return out
}

func sortInts(x *Exec, st *State, fr *Frame, args []Value, site ssa.Instruction) []Result {
	s := args[0].(*SliceV)
	n := s.Len
	if n > 64 {
		panic(x.fault("sort.Ints of %d elements exceeds the network bound 64", n))
	}
	for pass := 0; pass < n; pass++ {
		for j := 0; j+1 < n-pass; j++ {
			a := x.sliceElem(st, s, j).(*Term)
			b := x.sliceElem(st, s, j+1).(*Term)
			x.condSwapElems(st, s, j, j+1, x.tf.BVCmp(OSLt, b, a))
		}
	}
	return ret1(st, nil)
}

func sortSort(x *Exec, st *State, fr *Frame, args []Value, site ssa.Instruction) []Result {
	data := args[0]
	x.assumptions["sort.Sort modelled as a bubble network running the real Len/Less/Swap"] = true
	var out []Result
	for _, r0 := range x.callMethod(st, fr, data, "Len", nil, site) {
		nt := r0.Val.(*Term)
		if !nt.IsConst() {
			panic(x.fault("sort.Sort: symbolic Len"))
		}
		n := int(nt.U)
		if n > 64 {
			panic(x.fault("sort.Sort of %d elements exceeds the network bound 64", n))
		}
		states := []*State{r0.St}
		for pass := 0; pass < n; pass++ {
			for j := 0; j+1 < n-pass; j++ {
				var next []*State
				for _, s0 := range states {
					rs := x.callMethod(s0, fr, data, "Less", []Value{x.tf.BV(uint64(j+1), 64), x.tf.BV(uint64(j), 64)}, site)
					for _, r := range rs {
						c := r.Val.(*Term)
						if c.IsFalse() {
							next = append(next, r.St)
							continue
						}
						// run Swap on a copy and merge under c
						base := r.St
						sw := base.clone()
						srs := x.callMethod(sw, fr, data, "Swap", []Value{x.tf.BV(uint64(j), 64), x.tf.BV(uint64(j+1), 64)}, site)
						if c.IsTrue() {
							for _, q := range srs {
								next = append(next, q.St)
							}
							continue
						}
						for _, q := range srs {
							if m, ok := x.tryMerge(Result{St: base.clone()}, x.tf.Not(c), Result{St: q.St}, c); ok {
								next = append(next, m.St)
							} else {
								q.St.addPC(c)
								next = append(next, q.St)
								b2 := base.clone()
								b2.addPC(x.tf.Not(c))
								next = append(next, b2)
							}
						}
					}
				}
				states = next
			}
		}
		for _, s0 := range states {
			out = append(out, Result{St: s0})
		}
	}
	return out
}
