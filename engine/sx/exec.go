package sx

import (
	"fmt"
	"os"
	"go/constant"
	"go/token"
	"go/types"
	"sort"
	"strings"
	"time"

	"golang.org/x/tools/go/ssa"
)

var traceOn = os.Getenv("GOSMT_TRACE") != ""

type Fault struct{ Msg string }

func (f *Fault) Error() string { return f.Msg }

type cutPath struct{ reason string }

// Obligation is one solver query derived from the execution.
type Obligation struct {
	Harness string
	Kind    string // assert | panic | reach | unwind | alloc
	Label   string
	Site    string
	PC      []*Term
	Cond    *Term // the claim; query is sat(PC ∧ ¬Cond); for reach: sat(PC)
	Inputs  []*Term
	Choices []Choice
	Trace   []string
	Folded  bool // decided by constant folding
	First   bool // no cross-solver agreement required in the thorough tier (vr.FirstAnswer)
	negCond *Term
	members []*Obligation
	RawScript string
	RawNames  []string
	// results
	Status  string // unsat | sat | unknown | error | folded-true | folded-false
	Solver  string
	Secs    float64
	Model   map[string]string
	Detail  string
	Size    int
	Replay  string
	Confirmed string
	Known   string
}

type Result struct {
	St  *State
	Val Value
}

type deferred struct {
	fn   Value
	args []Value
	inst ssa.Instruction
}

type Frame struct {
	fn     *ssa.Function
	locals map[ssa.Value]Value
	defers []deferred
	visits map[int]int
	depth  int
}

func (fr *Frame) clone() *Frame {
	l := make(map[ssa.Value]Value, len(fr.locals))
	for k, v := range fr.locals {
		l[k] = v
	}
	vs := make(map[int]int, len(fr.visits))
	for k, v := range fr.visits {
		vs[k] = v
	}
	return &Frame{fn: fr.fn, locals: l, defers: fr.defers[:len(fr.defers):len(fr.defers)], visits: vs, depth: fr.depth}
}

type Config struct {
	Dom         Domain
	Unwind      int
	MaxDepth    int
	FeasTimeout time.Duration
	NoMerge     bool
	MergeAll    bool
	MaxPaths    int
	AllocLimit  int64
	MakeSplit   int // symbolic make lengths are split into 0..MakeSplit
	FirstAnswer bool // thorough tier: the first definitive back-end answer decides (no cross-check)
}

type Exec struct {
	prog      *ssa.Program
	tf        *TF
	feasN     [2]*Solver
	cfg       Config
	harness   string
	hpkg      *ssa.Package
	obls      []*Obligation
	globals   map[*ssa.Global]int
	globalRev map[int]*ssa.Global
	funcs     map[string]int
	stubs     map[string]*ssa.Function
	stubsUsed map[string]bool
	feasCache map[string]string
	errType   *types.Named
	Stats     struct {
		Paths, Branches, FeasQueries, Merges, Instrs, Cut, Calls int
		FeasSecs                                                float64
	}
	assumptions map[string]bool
	thorough    bool
	cur         ssa.Instruction
	conc        *concState
	lastTrace   time.Time
	deadline    time.Time
	notes       []string
}

func (x *Exec) fault(format string, a ...interface{}) *Fault {
	return &Fault{Msg: fmt.Sprintf(format, a...)}
}

func (x *Exec) pos(i ssa.Instruction) string {
	if i == nil {
		return "?"
	}
	p := i.Pos()
	if p == token.NoPos {
		// search backwards in block for a position
		if b := i.Block(); b != nil {
			for _, j := range b.Instrs {
				if j.Pos() != token.NoPos {
					p = j.Pos()
				}
				if j == i {
					break
				}
			}
		}
		if p == token.NoPos && i.Parent() != nil {
			p = i.Parent().Pos()
		}
	}
	ps := x.prog.Fset.Position(p)
	f := ps.Filename
	f = strings.TrimPrefix(f, "/repo/")
	return fmt.Sprintf("%s:%d", f, ps.Line)
}

// ---------- feasibility

func (x *Exec) feasSolver(i int) *Solver {
	if x.feasN[i] == nil || x.feasN[i].dead {
		s, err := StartSolver("z3-new")
		if err != nil {
			panic(x.fault("cannot start solver: %v", err))
		}
		x.feasN[i] = s
	}
	return x.feasN[i]
}

// prepPC renders the feasibility query for pc ∧ extra; returns a cached verdict if known.
func (x *Exec) prepPC(st *State, extra *Term) (key, script, verdict string, npc int, pcs []*Term) {
	if extra != nil && extra.IsFalse() {
		return "", "", "unsat", 0, nil
	}
	pcs = st.pcList()
	if extra != nil && !extra.IsTrue() {
		pcs = append(pcs, extra)
	}
	if len(pcs) == 0 {
		return "", "", "sat", 0, nil
	}
	var kb strings.Builder
	for _, t := range pcs {
		fmt.Fprintf(&kb, "%d,", t.ID)
	}
	key = kb.String()
	if r, ok := x.feasCache[key]; ok {
		return key, "", r, len(pcs), pcs
	}
	p := NewPrinter(x.tf, x.cfg.Dom)
	p.Light = true
	script = p.Script(pcs)
	if p.Err != nil {
		panic(x.fault("printer: %v", p.Err))
	}
	return key, script, "", len(pcs), pcs
}

func (x *Exec) noteFeas(r CheckResult, key string, pcs []*Term, script string) string {
	x.Stats.FeasQueries++
	x.Stats.FeasSecs += r.Secs
	if r.Secs > 1 && traceOn {
		fmt.Fprintf(os.Stderr, "slow feasibility query %.1fs (%s) at %s in %s, pc size %d nodes %d\n", r.Secs, r.Status, x.pos(x.cur), x.harness, len(pcs), TermSize(pcs))
		if os.Getenv("GOSMT_TRACE") == "dump" {
			os.WriteFile(fmt.Sprintf("/tmp/slow-%d.smt2", x.Stats.FeasQueries), []byte(script+"(check-sat)\n"), 0644)
		}
	}
	if r.Status == "error" {
		panic(x.fault("feasibility query error: %s", r.Detail))
	}
	x.feasCache[key] = r.Status
	return r.Status
}

func (x *Exec) satPC(st *State, extra *Term) string {
	key, script, verdict, _, pcs := x.prepPC(st, extra)
	if verdict != "" {
		return verdict
	}
	r := x.feasSolver(0).Check(script, nil, x.cfg.FeasTimeout)
	return x.noteFeas(r, key, pcs, script)
}

// satBoth decides feasibility of pc∧c and pc∧¬c, running the two queries in parallel.
func (x *Exec) satBoth(st *State, c *Term) (string, string) {
	nc := x.tf.Not(c)
	k1, s1, v1, _, p1 := x.prepPC(st, c)
	k2, s2, v2, _, p2 := x.prepPC(st, nc)
	if v1 == "unsat" {
		return "unsat", "sat" // pc is feasible by construction
	}
	if v2 == "unsat" {
		return "sat", "unsat"
	}
	switch {
	case v1 == "" && v2 == "":
		ch := make(chan CheckResult, 1)
		sv := x.feasSolver(1)
		go func() { ch <- sv.Check(s2, nil, x.cfg.FeasTimeout) }()
		r1 := x.feasSolver(0).Check(s1, nil, x.cfg.FeasTimeout)
		r2 := <-ch
		v1 = x.noteFeas(r1, k1, p1, s1)
		v2 = x.noteFeas(r2, k2, p2, s2)
	case v1 == "":
		v1 = x.noteFeas(x.feasSolver(0).Check(s1, nil, x.cfg.FeasTimeout), k1, p1, s1)
	case v2 == "":
		v2 = x.noteFeas(x.feasSolver(0).Check(s2, nil, x.cfg.FeasTimeout), k2, p2, s2)
	}
	return v1, v2
}

func (x *Exec) closeFeas() {
	for i := range x.feasN {
		if x.feasN[i] != nil {
			x.feasN[i].Close()
			x.feasN[i] = nil
		}
	}
}

// ---------- obligations

func (x *Exec) addObl(st *State, kind, label, site string, cond *Term) *Obligation {
	o := &Obligation{Harness: x.harness, Kind: kind, Label: label, Site: site, PC: st.pcList(), Cond: cond,
		Inputs: st.inputs[:len(st.inputs):len(st.inputs)], Choices: st.choices[:len(st.choices):len(st.choices)], Trace: st.trace[:len(st.trace):len(st.trace)], First: x.cfg.FirstAnswer}
	if cond.IsTrue() && kind != "reach" {
		o.Folded = true
		o.Status = "folded-true"
	}
	x.obls = append(x.obls, o)
	return o
}

// check records an implicit obligation (cond must hold) and assumes it; returns false if the path is dead.
func (x *Exec) check(st *State, cond *Term, label string, inst ssa.Instruction) bool {
	if cond.IsTrue() {
		return true
	}
	x.addObl(st, "panic", label, x.pos(inst), cond)
	if cond.IsFalse() {
		return false
	}
	if x.satPC(st, cond) == "unsat" {
		return false
	}
	st.addPC(cond)
	return true
}

// ---------- values of SSA operands

func (x *Exec) constValue(c *ssa.Const) Value {
	t := c.Type()
	if c.Value == nil {
		return x.zero(t)
	}
	switch u := t.Underlying().(type) {
	case *types.Basic:
		switch {
		case u.Info()&types.IsBoolean != 0:
			return x.tf.Bool(constant.BoolVal(c.Value))
		case u.Info()&types.IsInteger != 0:
			w := intWidth(u)
			v := constant.ToInt(c.Value)
			if i, ok := constant.Int64Val(v); ok {
				return x.tf.BV(uint64(i), w)
			}
			if uu, ok := constant.Uint64Val(v); ok {
				return x.tf.BV(uu, w)
			}
			panic(x.fault("integer constant out of range: %v", c))
		case u.Info()&types.IsFloat != 0:
			f, _ := constant.Float64Val(constant.ToFloat(c.Value))
			if u.Kind() == types.Float32 {
				f = float64(float32(f))
			}
			return x.tf.Float(f)
		case u.Info()&types.IsString != 0:
			return &StrV{S: constant.StringVal(c.Value)}
		}
	}
	panic(x.fault("unsupported constant %v of type %v", c, t))
}

func (x *Exec) globalID(g *ssa.Global) int {
	if id, ok := x.globals[g]; ok {
		return id
	}
	id := -(len(x.globals) + 1)
	x.globals[g] = id
	x.globalRev[id] = g
	return id
}

func (x *Exec) globalInit(g *ssa.Global) Value {
	et := g.Type().(*types.Pointer).Elem()
	if types.Identical(et, types.Universe.Lookup("error").Type()) {
		return x.opaqueErr(g.Pkg.Pkg.Path() + "." + g.Name())
	}
	return x.zero(et)
}

func (x *Exec) opaqueErr(tag string) Value {
	return &IfaceV{T: x.errType, V: &OpaqueV{Tag: tag}}
}

func (x *Exec) ensureGlobal(st *State, id int) {
	if _, ok := st.heap[id]; !ok {
		st.heap[id] = x.globalInit(x.globalRev[id])
	}
}

func (x *Exec) get(st *State, fr *Frame, v ssa.Value) Value {
	switch t := v.(type) {
	case *ssa.Const:
		return x.constValue(t)
	case *ssa.Global:
		id := x.globalID(t)
		x.ensureGlobal(st, id)
		return &PtrV{Obj: id}
	case *ssa.Function:
		return &FuncV{Fn: t}
	case *ssa.Builtin:
		return &OpaqueV{Tag: "builtin:" + t.Name()}
	}
	if r, ok := fr.locals[v]; ok {
		return r
	}
	panic(x.fault("no value for %s (%T) in %s", v.Name(), v, fr.fn))
}

// ---------- running

// Call executes fn with args from state st and returns all resulting path states.
func (x *Exec) callFunction(st *State, fn *ssa.Function, args []Value, bind []Value, depth int, site ssa.Instruction) []Result {
	if depth > x.cfg.MaxDepth {
		x.addObl(st, "unwind", "recursion depth exceeded in "+fn.String(), x.pos(site), x.tf.False)
		return nil
	}
	if fn.Blocks == nil {
		panic(x.fault("call to function without body: %s (at %s)", fn.String(), x.pos(site)))
	}
	x.Stats.Calls++
	if _, ok := x.funcs[fn.String()]; !ok {
		n := 0
		for _, b := range fn.Blocks {
			n += len(b.Instrs)
		}
		x.funcs[fn.String()] = n
	}
	fr := &Frame{fn: fn, locals: make(map[ssa.Value]Value, 32), visits: map[int]int{}, depth: depth}
	if len(args) != len(fn.Params) {
		panic(x.fault("arity mismatch calling %s: %d args for %d params", fn, len(args), len(fn.Params)))
	}
	for i, p := range fn.Params {
		fr.locals[p] = args[i]
	}
	for i, fv := range fn.FreeVars {
		fr.locals[fv] = bind[i]
	}
	basePC := st.pc
	rs := x.runBlock(st, fr, fn.Blocks[0], 0, nil)
	if len(rs) > 1 && !x.cfg.NoMerge && depth > 1 {
		rs = x.mergeResults(basePC, rs)
	}
	return rs
}

func (x *Exec) runBlock(st *State, fr *Frame, b *ssa.BasicBlock, idx int, prev *ssa.BasicBlock) []Result {
	for {
		if idx == 0 {
			// loop accounting and phis
			fr.visits[b.Index]++
			if fr.visits[b.Index] > x.cfg.Unwind+1 {
				if x.satPC(st, nil) != "unsat" {
					x.addObl(st, "unwind", fmt.Sprintf("unwinding bound %d exceeded in %s", x.cfg.Unwind, fr.fn), x.pos(b.Instrs[0]), x.tf.False)
				}
				return nil
			}
			if prev != nil {
				pi := -1
				for i, p := range b.Preds {
					if p == prev {
						pi = i
						break
					}
				}
				var phis []*ssa.Phi
				var vals []Value
				for _, in := range b.Instrs {
					ph, ok := in.(*ssa.Phi)
					if !ok {
						break
					}
					phis = append(phis, ph)
					vals = append(vals, x.get(st, fr, ph.Edges[pi]))
				}
				for i, ph := range phis {
					fr.locals[ph] = vals[i]
				}
				idx = len(phis)
			}
		}
		if !x.deadline.IsZero() && time.Now().After(x.deadline) {
			panic(x.fault("harness time budget exceeded"))
		}
		if traceOn && time.Since(x.lastTrace) > 5*time.Second {
			x.lastTrace = time.Now()
			fmt.Fprintf(os.Stderr, "[%s] paths=%d branches=%d feasq=%d (%.0fs) merges=%d obls=%d instrs=%d at %s in %s depth=%d\n", x.harness, x.Stats.Paths, x.Stats.Branches, x.Stats.FeasQueries, x.Stats.FeasSecs, x.Stats.Merges, len(x.obls), x.Stats.Instrs, x.pos(b.Instrs[0]), fr.fn.Name(), fr.depth)
		}
		var term ssa.Instruction
		for i := idx; i < len(b.Instrs); i++ {
			in := b.Instrs[i]
			x.Stats.Instrs++
			x.cur = in
			switch t := in.(type) {
			case *ssa.If, *ssa.Jump, *ssa.Return, *ssa.Panic:
				term = in
			case *ssa.Call, *ssa.MakeSlice, *ssa.Slice:
				var rs []Result
				if c, ok := in.(*ssa.Call); ok {
					rs = x.doCall(st, fr, c.Common(), c)
				} else if sl, ok := in.(*ssa.Slice); ok {
					rs = x.sliceFork(st, fr, sl)
				} else {
					ms := in.(*ssa.MakeSlice)
					if x.get(st, fr, ms.Len).(*Term).IsConst() && x.get(st, fr, ms.Cap).(*Term).IsConst() {
						if !x.makeSlice(st, fr, ms) {
							return nil
						}
						continue
					}
					rs = x.makeSliceFork(st, fr, ms)
				}
				tv := in.(ssa.Value)
				if len(rs) == 0 {
					return nil
				}
				if len(rs) == 1 {
					st = rs[0].St
					fr.locals[tv] = rs[0].Val
					continue
				}
				var out []Result
				for k, r := range rs {
					f2 := fr
					if k < len(rs)-1 {
						f2 = fr.clone()
					}
					f2.locals[tv] = r.Val
					out = append(out, x.runBlock(r.St, f2, b, i+1, nil)...)
				}
				return out
			case *ssa.Defer:
				c := t.Common()
				d := deferred{inst: t}
				if c.IsInvoke() {
					panic(x.fault("defer of interface method not supported"))
				}
				d.fn = x.get(st, fr, c.Value)
				for _, a := range c.Args {
					d.args = append(d.args, x.get(st, fr, a))
				}
				fr.defers = append(fr.defers, d)
			case *ssa.RunDefers:
				if len(fr.defers) == 0 {
					continue
				}
				d := fr.defers[len(fr.defers)-1]
				fr.defers = fr.defers[:len(fr.defers)-1:len(fr.defers)-1]
				rs := x.callValue(st, fr, d.fn, d.args, d.inst)
				var out []Result
				for k, r := range rs {
					f2 := fr
					if k < len(rs)-1 {
						f2 = fr.clone()
					}
					out = append(out, x.runBlock(r.St, f2, b, i, nil)...)
				}
				return out
			case *ssa.Go, *ssa.Select, *ssa.Send, *ssa.MakeChan:
				panic(x.fault("unsupported instruction %T at %s", in, x.pos(in)))
			default:
				ok := x.step(st, fr, in)
				if !ok {
					return nil
				}
			}
			if term != nil {
				break
			}
		}
		switch t := term.(type) {
		case *ssa.Jump:
			prev, b, idx = b, b.Succs[0], 0
			continue
		case *ssa.Return:
			if fr.depth <= 1 {
				x.Stats.Paths++
			}
			var v Value
			switch len(t.Results) {
			case 0:
			case 1:
				v = x.get(st, fr, t.Results[0])
			default:
				f := make([]Value, len(t.Results))
				for i, r := range t.Results {
					f[i] = x.get(st, fr, r)
				}
				v = &StructV{F: f}
			}
			return []Result{{St: st, Val: v}}
		case *ssa.Panic:
			msg := "explicit panic"
			if iv, ok := x.get(st, fr, t.X).(*IfaceV); ok && iv.T != nil {
				if s, ok := iv.V.(*StrV); ok {
					msg = "panic: " + s.S
				}
			}
			x.addObl(st, "panic", msg, x.pos(t), x.tf.False)
			return nil
		case *ssa.If:
			c := x.get(st, fr, t.Cond).(*Term)
			if c.IsConst() {
				if c.B {
					prev, b, idx = b, b.Succs[0], 0
				} else {
					prev, b, idx = b, b.Succs[1], 0
				}
				continue
			}
			x.Stats.Branches++
			rt, rf := x.satBoth(st, c)
			switch {
			case rt == "unsat" && rf == "unsat":
				return nil
			case rt == "unsat":
				st.addPC(x.tf.Not(c))
				prev, b, idx = b, b.Succs[1], 0
				continue
			case rf == "unsat":
				st.addPC(c)
				prev, b, idx = b, b.Succs[0], 0
				continue
			}
			if x.cfg.MaxPaths > 0 && x.Stats.Paths > x.cfg.MaxPaths {
				panic(x.fault("path budget %d exceeded", x.cfg.MaxPaths))
			}
			st2 := st.clone()
			fr2 := fr.clone()
			st.addPC(c)
			st2.addPC(x.tf.Not(c))
			out := x.runBlock(st, fr, b.Succs[0], 0, b)
			out = append(out, x.runBlock(st2, fr2, b.Succs[1], 0, b)...)
			return out
		default:
			panic(x.fault("block without terminator in %s", fr.fn))
		}
	}
}

// mergeResults merges path results of a call whose heaps have the same shape.
func (x *Exec) mergeResults(base *pcNode, rs []Result) []Result {
	baseN := 0
	if base != nil {
		baseN = base.n
	}
	suffix := func(s *State) (*Term, bool) {
		var ts []*Term
		p := s.pc
		for p != nil && p.n > baseN {
			ts = append(ts, p.t)
			p = p.prev
		}
		if p != base {
			return nil, false
		}
		return x.tf.And(ts...), true
	}
	type group struct {
		r    Result
		cond *Term
	}
	var groups []*group
	for _, r := range rs {
		c, ok := suffix(r.St)
		if !ok {
			groups = append(groups, &group{r: r, cond: nil})
			continue
		}
		merged := false
		for _, g := range groups {
			if g.cond == nil {
				continue
			}
			if m, ok := x.tryMerge(g.r, g.cond, r, c); ok {
				g.r = m
				g.cond = x.tf.Or(g.cond, c)
				merged = true
				x.Stats.Merges++
				break
			}
		}
		if !merged {
			groups = append(groups, &group{r: r, cond: c})
		}
	}
	out := make([]Result, 0, len(groups))
	for _, g := range groups {
		if g.cond != nil {
			// rebuild pc = base ∧ cond
			g.r.St.pc = base
			g.r.St.addPC(g.cond)
		}
		out = append(out, g.r)
	}
	return out
}

func (x *Exec) tryMerge(a Result, ca *Term, b Result, cb *Term) (Result, bool) {
	sa, sb := a.St, b.St
	if sa.nextObj != sb.nextObj || len(sa.choices) != len(sb.choices) || len(sa.counters) != len(sb.counters) || len(sa.ghost) != len(sb.ghost) {
		return a, false
	}
	for i := range sa.choices {
		if sa.choices[i] != sb.choices[i] {
			return a, false
		}
	}
	if len(sa.trace) != len(sb.trace) || len(sa.events) != len(sb.events) {
		return a, false
	}
	for i := range sa.events {
		if sa.events[i].Kind != sb.events[i].Kind || sa.events[i].Loc != sb.events[i].Loc || sa.events[i].Val != sb.events[i].Val {
			return a, false
		}
	}
	for i := range sa.trace {
		if sa.trace[i] != sb.trace[i] {
			return a, false
		}
	}
	for k, v := range sa.counters {
		if sb.counters[k] != v {
			return a, false
		}
	}
	// value: b under cb else a (a may already be a merge)
	var val Value
	if a.Val != nil || b.Val != nil {
		if a.Val == nil || b.Val == nil {
			return a, false
		}
		v, ok := x.tryIte(cb, b.Val, a.Val)
		if !ok {
			return a, false
		}
		val = v
	}
	for id := range sb.heap {
		if _, ok := sa.heap[id]; !ok {
			if id < 0 {
				x.ensureGlobal(sa, id)
			} else {
				return a, false
			}
		}
	}
	type upd struct {
		id int
		v  Value
	}
	var upds []upd
	for id, va := range sa.heap {
		vb, ok := sb.heap[id]
		if !ok {
			if id < 0 {
				x.ensureGlobal(sb, id)
				vb = sb.heap[id]
			} else {
				return a, false
			}
		}
		if va == vb {
			continue
		}
		v, ok := x.tryIteS(cb, vb, va, !x.cfg.MergeAll)
		if !ok {
			return a, false
		}
		upds = append(upds, upd{id, v})
	}
	gh := map[string]Value{}
	for k, va := range sa.ghost {
		vb, ok := sb.ghost[k]
		if !ok {
			return a, false
		}
		v, ok := x.tryIte(cb, vb, va)
		if !ok {
			return a, false
		}
		gh[k] = v
	}
	for _, u := range upds {
		sa.heap[u.id] = u.v
	}
	sa.ghost = gh
	// union of inputs
	seen := map[int]bool{}
	for _, t := range sa.inputs {
		seen[t.ID] = true
	}
	for _, t := range sb.inputs {
		if !seen[t.ID] {
			sa.inputs = append(sa.inputs, t)
		}
	}
	return Result{St: sa, Val: val}, true
}

// ---------- calls

func (x *Exec) doCall(st *State, fr *Frame, c *ssa.CallCommon, site ssa.Instruction) []Result {
	if c.IsInvoke() {
		recv := x.get(st, fr, c.Value)
		iv, ok := recv.(*IfaceV)
		if !ok {
			panic(x.fault("invoke on non-interface %T at %s", recv, x.pos(site)))
		}
		if iv.T == nil {
			x.addObl(st, "panic", "nil interface method call", x.pos(site), x.tf.False)
			return nil
		}
		args := []Value{iv.V}
		for _, a := range c.Args {
			args = append(args, x.get(st, fr, a))
		}
		if iv.T == x.errType {
			if c.Method.Name() == "Error" {
				return []Result{{St: st, Val: &StrV{S: iv.V.(*OpaqueV).Tag}}}
			}
		}
		fn := x.prog.LookupMethod(iv.T, c.Method.Pkg(), c.Method.Name())
		if fn == nil {
			panic(x.fault("no method %s on %v at %s", c.Method.Name(), iv.T, x.pos(site)))
		}
		return x.callFn(st, fr, fn, args, nil, site)
	}
	var args []Value
	for _, a := range c.Args {
		args = append(args, x.get(st, fr, a))
	}
	switch f := c.Value.(type) {
	case *ssa.Builtin:
		return x.builtin(st, fr, f, c, args, site)
	case *ssa.Function:
		return x.callFn(st, fr, f, args, nil, site)
	}
	return x.callValue(st, fr, x.get(st, fr, c.Value), args, site)
}

func (x *Exec) callValue(st *State, fr *Frame, fv Value, args []Value, site ssa.Instruction) []Result {
	f, ok := fv.(*FuncV)
	if !ok {
		panic(x.fault("call of non-function value %T at %s", fv, x.pos(site)))
	}
	if f.Fn == nil {
		x.addObl(st, "panic", "call of nil function", x.pos(site), x.tf.False)
		return nil
	}
	return x.callFn(st, fr, f.Fn, args, f.Bind, site)
}

func (x *Exec) callFn(st *State, fr *Frame, fn *ssa.Function, args []Value, bind []Value, site ssa.Instruction) []Result {
	name := fn.String()
	if o := fn.Origin(); o != nil {
		name = o.String()
	}
	if fn.Synthetic == "package initializer" && !isGeoPkg(fn.Pkg.Pkg) {
		return []Result{{St: st}}
	}
	if stub, ok := x.stubs[name]; ok && stub != fr.fn {
		x.stubsUsed[name] = true
		return x.callFunction(st, stub, args, nil, fr.depth+1, site)
	}
	if h := x.intrinsic(name, fn); h != nil {
		return h(x, st, fr, args, site)
	}
	return x.callFunction(st, fn, args, bind, fr.depth+1, site)
}

// ---------- single instruction step (no control flow, no calls)

func (x *Exec) step(st *State, fr *Frame, in ssa.Instruction) bool {
	switch t := in.(type) {
	case *ssa.DebugRef:
		return true
	case *ssa.Alloc:
		et := t.Type().(*types.Pointer).Elem()
		id := st.alloc(x.zero(et))
		fr.locals[t] = &PtrV{Obj: id}
	case *ssa.BinOp:
		v, ok := x.binop(st, t.Op, x.get(st, fr, t.X), x.get(st, fr, t.Y), t.X.Type(), t.Y.Type(), t)
		if !ok {
			return false
		}
		fr.locals[t] = v
	case *ssa.UnOp:
		xv := x.get(st, fr, t.X)
		switch t.Op {
		case token.MUL:
			p := xv.(*PtrV)
			if p.Obj == 0 {
				x.addObl(st, "panic", "nil pointer dereference", x.pos(t), x.tf.False)
				return false
			}
			if !x.checkSymPath(st, p, t) {
				return false
			}
			if x.conc != nil {
				x.concPlain(st, "R", p, t)
			}
			fr.locals[t] = x.load(st, p)
		case token.NOT:
			fr.locals[t] = x.tf.Not(xv.(*Term))
		case token.SUB:
			tv := xv.(*Term)
			if tv.S.K == KFloat {
				fr.locals[t] = x.tf.FUn(OFNeg, tv)
			} else {
				fr.locals[t] = x.tf.BVNeg(tv)
			}
		case token.XOR:
			fr.locals[t] = x.tf.BVNot(xv.(*Term))
		default:
			panic(x.fault("unsupported unop %v at %s", t.Op, x.pos(t)))
		}
	case *ssa.ChangeType:
		fr.locals[t] = x.get(st, fr, t.X)
	case *ssa.ChangeInterface:
		fr.locals[t] = x.get(st, fr, t.X)
	case *ssa.Convert:
		fr.locals[t] = x.convert(st, x.get(st, fr, t.X), t.X.Type(), t.Type(), t)
	case *ssa.MakeInterface:
		fr.locals[t] = &IfaceV{T: t.X.Type(), V: x.get(st, fr, t.X)}
	case *ssa.MakeClosure:
		var bind []Value
		for _, b := range t.Bindings {
			bind = append(bind, x.get(st, fr, b))
		}
		fr.locals[t] = &FuncV{Fn: t.Fn.(*ssa.Function), Bind: bind}
	case *ssa.Extract:
		fr.locals[t] = x.get(st, fr, t.Tuple).(*StructV).F[t.Index]
	case *ssa.Field:
		fr.locals[t] = x.get(st, fr, t.X).(*StructV).F[t.Field]
	case *ssa.FieldAddr:
		p := x.get(st, fr, t.X).(*PtrV)
		if p.Obj == 0 {
			x.addObl(st, "panic", "nil pointer dereference (field address)", x.pos(t), x.tf.False)
			return false
		}
		np := &PtrV{Obj: p.Obj, Path: append(p.Path[:len(p.Path):len(p.Path)], PE{I: t.Field})}
		fr.locals[t] = np
	case *ssa.Index:
		xv := x.get(st, fr, t.X)
		iv := x.toBV64(x.get(st, fr, t.Index).(*Term), t.Index.Type())
		switch a := xv.(type) {
		case *StructV:
			n := len(a.F)
			if iv.IsConst() {
				if sext(iv.U, 64) < 0 || int(iv.U) >= n {
					x.addObl(st, "panic", "index out of range", x.pos(t), x.tf.False)
					return false
				}
				fr.locals[t] = a.F[iv.U]
			} else {
				if !x.check(st, x.tf.BVCmp(OULt, iv, x.tf.BV(uint64(n), 64)), "index out of range", t) {
					return false
				}
				fr.locals[t] = x.selectValue(iv, a.F)
			}
		case *StrV:
			if !iv.IsConst() {
				panic(x.fault("symbolic index into string at %s", x.pos(t)))
			}
			if int(iv.U) >= len(a.S) {
				x.addObl(st, "panic", "string index out of range", x.pos(t), x.tf.False)
				return false
			}
			fr.locals[t] = x.tf.BV(uint64(a.S[iv.U]), 8)
		default:
			panic(x.fault("index of %T", xv))
		}
	case *ssa.IndexAddr:
		xv := x.get(st, fr, t.X)
		iv := x.toBV64(x.get(st, fr, t.Index).(*Term), t.Index.Type())
		var obj, off, n int
		var path []PE
		switch a := xv.(type) {
		case *SliceV:
			obj, off, n, path = a.Obj, a.Off, a.Len, a.Path
		case *PtrV:
			if a.Obj == 0 {
				x.addObl(st, "panic", "nil pointer dereference (array index)", x.pos(t), x.tf.False)
				return false
			}
			obj, path = a.Obj, a.Path
			at := t.X.Type().Underlying().(*types.Pointer).Elem().Underlying().(*types.Array)
			n = int(at.Len())
		default:
			panic(x.fault("indexaddr of %T", xv))
		}
		if iv.IsConst() {
			if sext(iv.U, 64) < 0 || int64(iv.U) >= int64(n) {
				x.addObl(st, "panic", fmt.Sprintf("index out of range [%d] with length %d", sext(iv.U, 64), n), x.pos(t), x.tf.False)
				return false
			}
			fr.locals[t] = &PtrV{Obj: obj, Path: append(path[:len(path):len(path)], PE{I: off + int(iv.U)})}
		} else {
			if n == 0 {
				x.addObl(st, "panic", "index out of range (empty)", x.pos(t), x.tf.False)
				return false
			}
			if !x.check(st, x.tf.BVCmp(OULt, iv, x.tf.BV(uint64(n), 64)), "index out of range", t) {
				return false
			}
			fr.locals[t] = &PtrV{Obj: obj, Path: append(path[:len(path):len(path)], PE{Sym: iv, Base: off, N: n})}
		}
	case *ssa.Store:
		p := x.get(st, fr, t.Addr).(*PtrV)
		if p.Obj == 0 {
			x.addObl(st, "panic", "nil pointer dereference (store)", x.pos(t), x.tf.False)
			return false
		}
		if x.conc != nil {
			x.concPlain(st, "W", p, t)
		}
		x.store(st, p, x.get(st, fr, t.Val))
	case *ssa.MakeMap:
		id := st.alloc(&MapObj{})
		fr.locals[t] = &MapV{Obj: id}
	case *ssa.MapUpdate:
		m := x.get(st, fr, t.Map).(*MapV)
		if m.Obj == 0 {
			x.addObl(st, "panic", "assignment to entry in nil map", x.pos(t), x.tf.False)
			return false
		}
		if x.conc != nil {
			x.concPlain(st, "W", &PtrV{Obj: m.Obj}, t)
		}
		mo := st.heap[m.Obj].(*MapObj)
		k := x.get(st, fr, t.Key)
		v := x.get(st, fr, t.Value)
		nm := &MapObj{Keys: append([]Value(nil), mo.Keys...), Vals: append([]Value(nil), mo.Vals...)}
		found := false
		for i, kk := range nm.Keys {
			eq := x.keyEq(kk, k, t)
			if eq {
				nm.Vals[i] = v
				found = true
			}
		}
		if !found {
			nm.Keys = append(nm.Keys, k)
			nm.Vals = append(nm.Vals, v)
		}
		st.heap[m.Obj] = nm
	case *ssa.Lookup:
		xv := x.get(st, fr, t.X)
		switch a := xv.(type) {
		case *MapV:
			k := x.get(st, fr, t.Index)
			var val Value
			found := false
			if a.Obj != 0 {
				if x.conc != nil {
					x.concPlain(st, "R", &PtrV{Obj: a.Obj}, t)
				}
				mo := st.heap[a.Obj].(*MapObj)
				for i, kk := range mo.Keys {
					if x.keyEq(kk, k, t) {
						val, found = mo.Vals[i], true
					}
				}
			}
			if !found {
				val = x.zero(t.X.Type().Underlying().(*types.Map).Elem())
			}
			if t.CommaOk {
				fr.locals[t] = &StructV{F: []Value{val, x.tf.Bool(found)}}
			} else {
				fr.locals[t] = val
			}
		case *StrV:
			iv := x.get(st, fr, t.Index).(*Term)
			if !iv.IsConst() {
				panic(x.fault("symbolic string index at %s", x.pos(t)))
			}
			if int(iv.U) >= len(a.S) {
				x.addObl(st, "panic", "string index out of range", x.pos(t), x.tf.False)
				return false
			}
			fr.locals[t] = x.tf.BV(uint64(a.S[iv.U]), 8)
		default:
			panic(x.fault("lookup on %T", xv))
		}
	case *ssa.Range:
		xv := x.get(st, fr, t.X)
		switch a := xv.(type) {
		case *MapV:
			var keys, vals []Value
			if a.Obj != 0 {
				mo := st.heap[a.Obj].(*MapObj)
				keys, vals = mo.Keys, mo.Vals
				// deterministic order (sorted by printed key) — Go's order is unspecified
				idx := make([]int, len(keys))
				for i := range idx {
					idx[i] = i
				}
				sort.SliceStable(idx, func(i, j int) bool { return x.show(keys[idx[i]]) < x.show(keys[idx[j]]) })
				k2 := make([]Value, len(keys))
				v2 := make([]Value, len(keys))
				for i, j := range idx {
					k2[i], v2[i] = keys[j], vals[j]
				}
				keys, vals = k2, v2
			}
			id := st.alloc(&StructV{F: []Value{&StructV{F: keys}, &StructV{F: vals}, x.tf.BV(0, 64)}})
			fr.locals[t] = &PtrV{Obj: id}
		case *StrV:
			var keys, vals []Value
			for i, r := range a.S {
				keys = append(keys, x.tf.BV(uint64(i), 64))
				vals = append(vals, x.tf.BV(uint64(r), 32))
			}
			id := st.alloc(&StructV{F: []Value{&StructV{F: keys}, &StructV{F: vals}, x.tf.BV(0, 64)}})
			fr.locals[t] = &PtrV{Obj: id}
		default:
			panic(x.fault("range over %T", xv))
		}
	case *ssa.Next:
		it := x.get(st, fr, t.Iter).(*PtrV)
		o := st.heap[it.Obj].(*StructV)
		keys, vals := o.F[0].(*StructV).F, o.F[1].(*StructV).F
		pos := int(o.F[2].(*Term).U)
		tt := t.Type().(*types.Tuple)
		if pos >= len(keys) {
			fr.locals[t] = &StructV{F: []Value{x.tf.False, x.zeroOrNil(tt.At(1).Type()), x.zeroOrNil(tt.At(2).Type())}}
		} else {
			st.heap[it.Obj] = &StructV{F: []Value{o.F[0], o.F[1], x.tf.BV(uint64(pos+1), 64)}}
			fr.locals[t] = &StructV{F: []Value{x.tf.True, keys[pos], vals[pos]}}
		}
	case *ssa.TypeAssert:
		iv := x.get(st, fr, t.X).(*IfaceV)
		ok := false
		if iv.T != nil {
			if it, isI := t.AssertedType.Underlying().(*types.Interface); isI {
				if iv.T == x.errType {
					ok = it.NumMethods() == 0 || (it.NumMethods() == 1 && it.Method(0).Name() == "Error")
				} else {
					ok = types.Implements(iv.T, it)
				}
			} else {
				ok = types.Identical(iv.T, t.AssertedType)
			}
		}
		var res Value
		if ok {
			if _, isI := t.AssertedType.Underlying().(*types.Interface); isI {
				res = iv
			} else {
				res = iv.V
			}
		} else {
			res = x.zero(t.AssertedType)
		}
		if t.CommaOk {
			fr.locals[t] = &StructV{F: []Value{res, x.tf.Bool(ok)}}
		} else {
			if !ok {
				x.addObl(st, "panic", "failed type assertion", x.pos(t), x.tf.False)
				return false
			}
			fr.locals[t] = res
		}
	default:
		panic(x.fault("unsupported instruction %T at %s", in, x.pos(in)))
	}
	return true
}

func (x *Exec) zeroOrNil(t types.Type) Value {
	if t == nil {
		return nil
	}
	if b, ok := t.(*types.Basic); ok && b.Kind() == types.Invalid {
		return nil
	}
	return x.zero(t)
}

// checkSymPath: nothing to check beyond the bounds obligation emitted at IndexAddr.
func (x *Exec) checkSymPath(st *State, p *PtrV, in ssa.Instruction) bool { return true }

func (x *Exec) keyEq(a, b Value, in ssa.Instruction) bool {
	ta, ok1 := a.(*Term)
	tb, ok2 := b.(*Term)
	if ok1 && ok2 {
		if ta == tb {
			return true
		}
		if ta.IsConst() && tb.IsConst() {
			return false
		}
		panic(x.fault("map with symbolic keys at %s (keys %s, %s)", x.pos(in), ta, tb))
	}
	if sa, ok := a.(*StructV); ok {
		sb := b.(*StructV)
		all := true
		for i := range sa.F {
			if !x.keyEq(sa.F[i], sb.F[i], in) {
				all = false
			}
		}
		return all
	}
	return x.sameValue(a, b)
}

func (x *Exec) toBV64(t *Term, ty types.Type) *Term {
	if t.S.W == 64 {
		return t
	}
	if isSigned(ty) {
		return x.tf.SExt(t, 64)
	}
	return x.tf.ZExt(t, 64)
}

// concrete extracts a concrete integer; if symbolic, tries to find the unique feasible value.
func (x *Exec) concreteInt(st *State, t *Term, what string, in ssa.Instruction) (int64, bool) {
	if t.IsConst() {
		return sext(t.U, t.S.W), true
	}
	return 0, false
}

// sliceFork evaluates a slice expression; symbolic bounds are case-split over the feasible
// values in [0, cap] (each case is one path with a concrete bound).
func (x *Exec) sliceFork(st *State, fr *Frame, t *ssa.Slice) []Result {
	var symv ssa.Value
	for _, v := range []ssa.Value{t.Low, t.High, t.Max} {
		if v == nil {
			continue
		}
		if tv := x.get(st, fr, v).(*Term); !tv.IsConst() {
			symv = v
			break
		}
	}
	if symv == nil {
		if !x.sliceOp(st, fr, t) {
			return nil
		}
		return []Result{{St: st, Val: fr.locals[t]}}
	}
	// capacity bound
	capv := 0
	switch a := x.get(st, fr, t.X).(type) {
	case *SliceV:
		capv = a.Cap
	case *StrV:
		capv = len(a.S)
	case *PtrV:
		capv = int(t.X.Type().Underlying().(*types.Pointer).Elem().Underlying().(*types.Array).Len())
	}
	tv := x.toBV64(x.get(st, fr, symv).(*Term), symv.Type())
	inRange := x.tf.BVCmp(OULe, tv, x.tf.BV(uint64(capv), 64))
	if !x.check(st, inRange, "slice bounds out of range", t) {
		return nil
	}
	var out []Result
	saved := fr.locals[symv]
	for v := 0; v <= capv; v++ {
		c := x.tf.Eq(tv, x.tf.BV(uint64(v), 64))
		if x.satPC(st, c) == "unsat" {
			continue
		}
		s2 := st.clone()
		s2.addPC(c)
		fr.locals[symv] = x.tf.BV(uint64(v), x.get(st, fr, symv).(*Term).S.W)
		rs := x.sliceFork(s2, fr, t)
		fr.locals[symv] = saved
		out = append(out, rs...)
	}
	return out
}

func (x *Exec) sliceOp(st *State, fr *Frame, t *ssa.Slice) bool {
	xv := x.get(st, fr, t.X)
	geti := func(v ssa.Value, def int) (int, bool) {
		if v == nil {
			return def, true
		}
		tv := x.get(st, fr, v).(*Term)
		if !tv.IsConst() {
			// try to split on small range
			return 0, false
		}
		return int(sext(tv.U, tv.S.W)), true
	}
	switch a := xv.(type) {
	case *StrV:
		lo, ok1 := geti(t.Low, 0)
		hi, ok2 := geti(t.High, len(a.S))
		if !ok1 || !ok2 {
			panic(x.fault("symbolic string slice bounds at %s", x.pos(t)))
		}
		if lo < 0 || hi > len(a.S) || lo > hi {
			x.addObl(st, "panic", "string slice bounds out of range", x.pos(t), x.tf.False)
			return false
		}
		fr.locals[t] = &StrV{S: a.S[lo:hi]}
		return true
	case *SliceV:
		lo, ok1 := geti(t.Low, 0)
		hi, ok2 := geti(t.High, a.Len)
		mx, ok3 := geti(t.Max, a.Cap)
		if !ok1 || !ok2 || !ok3 {
			panic(x.fault("symbolic slice bounds at %s", x.pos(t)))
		}
		if lo < 0 || hi > mx || lo > hi || mx > a.Cap {
			x.addObl(st, "panic", fmt.Sprintf("slice bounds out of range [%d:%d:%d] with capacity %d", lo, hi, mx, a.Cap), x.pos(t), x.tf.False)
			return false
		}
		if a.Obj == 0 {
			fr.locals[t] = &SliceV{}
			return true
		}
		fr.locals[t] = &SliceV{Obj: a.Obj, Path: a.Path, Off: a.Off + lo, Len: hi - lo, Cap: mx - lo}
		return true
	case *PtrV:
		if a.Obj == 0 {
			x.addObl(st, "panic", "slice of nil array pointer", x.pos(t), x.tf.False)
			return false
		}
		at := t.X.Type().Underlying().(*types.Pointer).Elem().Underlying().(*types.Array)
		n := int(at.Len())
		lo, ok1 := geti(t.Low, 0)
		hi, ok2 := geti(t.High, n)
		mx, ok3 := geti(t.Max, n)
		if !ok1 || !ok2 || !ok3 {
			panic(x.fault("symbolic array slice bounds at %s", x.pos(t)))
		}
		if lo < 0 || hi > mx || lo > hi || mx > n {
			x.addObl(st, "panic", "slice bounds out of range", x.pos(t), x.tf.False)
			return false
		}
		fr.locals[t] = &SliceV{Obj: a.Obj, Path: a.Path, Off: lo, Len: hi - lo, Cap: mx - lo}
		return true
	}
	panic(x.fault("slice of %T", xv))
}

func (x *Exec) makeSlice(st *State, fr *Frame, t *ssa.MakeSlice) bool {
	lt := x.get(st, fr, t.Len).(*Term)
	ct := x.get(st, fr, t.Cap).(*Term)
	et := t.Type().Underlying().(*types.Slice).Elem()
	if !lt.IsConst() || !ct.IsConst() {
		panic(x.fault("symbolic make length reached step (should be handled by makeSliceFork) at %s", x.pos(t)))
	}
	n, c := sext(lt.U, lt.S.W), sext(ct.U, ct.S.W)
	if n < 0 || c < n {
		x.addObl(st, "panic", "makeslice: len out of range", x.pos(t), x.tf.False)
		return false
	}
	if c > 4096 {
		panic(x.fault("make with concrete capacity %d too large for the executor at %s", c, x.pos(t)))
	}
	z := x.zero(et)
	f := make([]Value, c)
	for i := range f {
		f[i] = z
	}
	id := st.alloc(&StructV{F: f})
	fr.locals[t] = &SliceV{Obj: id, Off: 0, Len: int(n), Cap: int(c)}
	return true
}
