package sx

import (
	"fmt"
	"go/types"

	"golang.org/x/tools/go/ssa"
)

// Value is a symbolic Go value:
//
//	*Term    scalar (bool, integers, float64, exact real)
//	*StructV struct / array / tuple
//	*PtrV    pointer (concrete object, path with possibly symbolic slice index)
//	*SliceV  slice header with concrete offset/len/cap
//	*IfaceV  interface value with concrete dynamic type
//	*FuncV   function value / closure
//	*StrV    string (concrete)
//	*MapV    map reference
//	*OpaqueV opaque external value
type Value interface{}

type StructV struct{ F []Value }

type PE struct {
	I    int   // concrete index (field or element)
	Sym  *Term // symbolic element index (BV64), relative to Base
	Base int
	N    int // number of elements addressable by Sym
}

type PtrV struct {
	Obj  int // 0 = nil
	Path []PE
}

type SliceV struct {
	Obj           int  // 0 = nil slice
	Path          []PE // path from the object to the backing array (usually empty)
	Off, Len, Cap int
}

type IfaceV struct {
	T types.Type // nil = nil interface
	V Value
}

type FuncV struct {
	Fn   *ssa.Function
	Bind []Value
}

type StrV struct{ S string }

type MapV struct{ Obj int }

type MapObj struct {
	Keys []Value
	Vals []Value
}

type OpaqueV struct{ Tag string }

// BigV is the content of a *big.Float object: an exact real term.
type BigV struct {
	R    *Term
	Prec uint
}

type pcNode struct {
	t    *Term
	prev *pcNode
	n    int
}

type Choice struct {
	Name string
	Val  int64
}

// State is one symbolic path state.
type State struct {
	heap     map[int]Value
	nextObj  int
	pc       *pcNode
	choices  []Choice
	inputs   []*Term
	counters map[string]int
	ghost    map[string]Value
	cut      bool
	trace    []string
	events   []concEvent
}

func (s *State) clone() *State {
	h := make(map[int]Value, len(s.heap))
	for k, v := range s.heap {
		h[k] = v
	}
	c := make(map[string]int, len(s.counters))
	for k, v := range s.counters {
		c[k] = v
	}
	g := make(map[string]Value, len(s.ghost))
	for k, v := range s.ghost {
		g[k] = v
	}
	return &State{heap: h, nextObj: s.nextObj, pc: s.pc, choices: s.choices[:len(s.choices):len(s.choices)], inputs: s.inputs[:len(s.inputs):len(s.inputs)], counters: c, ghost: g,
		trace: s.trace[:len(s.trace):len(s.trace)], events: s.events[:len(s.events):len(s.events)]}
}

func (s *State) addPC(t *Term) {
	if t.IsTrue() {
		return
	}
	n := 1
	if s.pc != nil {
		n = s.pc.n + 1
	}
	s.pc = &pcNode{t: t, prev: s.pc, n: n}
}

func (s *State) pcList() []*Term {
	var out []*Term
	for p := s.pc; p != nil; p = p.prev {
		out = append(out, p.t)
	}
	for i, j := 0, len(out)-1; i < j; i, j = i+1, j-1 {
		out[i], out[j] = out[j], out[i]
	}
	return out
}

func (s *State) alloc(v Value) int {
	s.nextObj++
	s.heap[s.nextObj] = v
	return s.nextObj
}

// ---- zero values

func (x *Exec) zero(t types.Type) Value {
	switch u := t.Underlying().(type) {
	case *types.Basic:
		switch {
		case u.Info()&types.IsBoolean != 0:
			return x.tf.False
		case u.Info()&types.IsInteger != 0:
			return x.tf.BV(0, intWidth(u))
		case u.Info()&types.IsFloat != 0:
			return x.tf.Float(0)
		case u.Info()&types.IsString != 0:
			return &StrV{}
		case u.Kind() == types.UnsafePointer:
			return &PtrV{}
		case u.Kind() == types.UntypedNil:
			return &PtrV{}
		}
	case *types.Pointer:
		return &PtrV{}
	case *types.Slice:
		return &SliceV{}
	case *types.Map:
		return &MapV{}
	case *types.Signature:
		return &FuncV{}
	case *types.Interface:
		return &IfaceV{}
	case *types.Chan:
		return &OpaqueV{Tag: "chan"}
	case *types.Struct:
		f := make([]Value, u.NumFields())
		for i := range f {
			f[i] = x.zero(u.Field(i).Type())
		}
		return &StructV{F: f}
	case *types.Array:
		n := int(u.Len())
		f := make([]Value, n)
		if n > 0 {
			z := x.zero(u.Elem())
			for i := range f {
				f[i] = z
			}
		}
		return &StructV{F: f}
	case *types.Tuple:
		f := make([]Value, u.Len())
		for i := range f {
			f[i] = x.zero(u.At(i).Type())
		}
		return &StructV{F: f}
	}
	panic(x.fault("zero value of unsupported type %v", t))
}

func intWidth(b *types.Basic) int {
	switch b.Kind() {
	case types.Int8, types.Uint8:
		return 8
	case types.Int16, types.Uint16:
		return 16
	case types.Int32, types.Uint32:
		return 32
	case types.Int, types.Uint, types.Int64, types.Uint64, types.Uintptr, types.UntypedInt, types.UntypedRune:
		return 64
	}
	return 64
}

func isSigned(t types.Type) bool {
	b, ok := t.Underlying().(*types.Basic)
	return ok && b.Info()&types.IsInteger != 0 && b.Info()&types.IsUnsigned == 0
}

func isInt(t types.Type) bool {
	b, ok := t.Underlying().(*types.Basic)
	return ok && b.Info()&types.IsInteger != 0
}

func isFloat(t types.Type) bool {
	b, ok := t.Underlying().(*types.Basic)
	return ok && b.Info()&types.IsFloat != 0
}

func isBool(t types.Type) bool {
	b, ok := t.Underlying().(*types.Basic)
	return ok && b.Info()&types.IsBoolean != 0
}

func isString(t types.Type) bool {
	b, ok := t.Underlying().(*types.Basic)
	return ok && b.Info()&types.IsString != 0
}

// ---- heap access through paths

// getPath reads the sub-value of v addressed by path.
func (x *Exec) getPath(v Value, path []PE) Value {
	for i, pe := range path {
		sv, ok := v.(*StructV)
		if !ok {
			panic(x.fault("path into non-aggregate %T", v))
		}
		if pe.Sym == nil {
			if pe.I < 0 || pe.I >= len(sv.F) {
				panic(x.fault("path index %d out of range %d", pe.I, len(sv.F)))
			}
			v = sv.F[pe.I]
			continue
		}
		// symbolic element: ite over candidates
		rest := path[i+1:]
		var cands []Value
		for k := 0; k < pe.N; k++ {
			cands = append(cands, x.getPath(sv.F[pe.Base+k], rest))
		}
		return x.selectValue(pe.Sym, cands)
	}
	return v
}

// selectValue builds the value cands[idx] for symbolic idx (BV64), assuming 0 <= idx < len(cands).
func (x *Exec) selectValue(idx *Term, cands []Value) Value {
	if len(cands) == 0 {
		panic(x.fault("select from empty candidate list"))
	}
	if len(cands) == 1 {
		return cands[0]
	}
	// balanced tree on index bits
	nb := 0
	for (1 << uint(nb)) < len(cands) {
		nb++
	}
	var build func(lo, bit int) Value
	build = func(lo, bit int) Value {
		if bit < 0 {
			if lo < len(cands) {
				return cands[lo]
			}
			return cands[len(cands)-1]
		}
		if lo >= len(cands) {
			return cands[len(cands)-1]
		}
		a := build(lo, bit-1)
		hiLo := lo + (1 << uint(bit))
		if hiLo >= len(cands) {
			return a
		}
		b := build(hiLo, bit-1)
		c := x.tf.Eq(x.tf.Extract(idx, bit, bit), x.tf.BV(1, 1))
		return x.iteValue(c, b, a)
	}
	return build(0, nb-1)
}

// iteValue merges two values of identical shape under condition c.
func (x *Exec) iteValue(c *Term, a, b Value) Value {
	if c.IsTrue() {
		return a
	}
	if c.IsFalse() {
		return b
	}
	v, ok := x.tryIte(c, a, b)
	if !ok {
		panic(x.fault("cannot merge values of different shape: %s vs %s", x.show(a), x.show(b)))
	}
	return v
}

func (x *Exec) tryIte(c *Term, a, b Value) (Value, bool) {
	return x.tryIteS(c, a, b, false)
}

// tryIteS: with strict set, two distinct integer constants are not merged (they are
// typically cursors, lengths or counters that later code needs concretely).
func (x *Exec) tryIteS(c *Term, a, b Value, strict bool) (Value, bool) {
	switch av := a.(type) {
	case *Term:
		bv, ok := b.(*Term)
		if !ok || av.S != bv.S {
			return nil, false
		}
		if strict && av != bv && av.IsConst() && bv.IsConst() && av.S.K == KBV {
			return nil, false
		}
		return x.tf.Ite(c, av, bv), true
	case *StructV:
		bv, ok := b.(*StructV)
		if !ok || len(av.F) != len(bv.F) {
			return nil, false
		}
		if av == bv {
			return av, true
		}
		out := make([]Value, len(av.F))
		for i := range av.F {
			if av.F[i] == bv.F[i] {
				out[i] = av.F[i]
				continue
			}
			v, ok := x.tryIteS(c, av.F[i], bv.F[i], strict)
			if !ok {
				return nil, false
			}
			out[i] = v
		}
		return &StructV{F: out}, true
	case *BigV:
		bv, ok := b.(*BigV)
		if !ok || av.Prec != bv.Prec {
			return nil, false
		}
		return &BigV{R: x.tf.Ite(c, av.R, bv.R), Prec: av.Prec}, true
	default:
		if x.sameValue(a, b) {
			return a, true
		}
		return nil, false
	}
}

// sameValue: structural identity (terms by pointer).
func (x *Exec) sameValue(a, b Value) bool {
	switch av := a.(type) {
	case *Term:
		bv, ok := b.(*Term)
		return ok && av == bv
	case *StructV:
		bv, ok := b.(*StructV)
		if !ok || len(av.F) != len(bv.F) {
			return false
		}
		if av == bv {
			return true
		}
		for i := range av.F {
			if !x.sameValue(av.F[i], bv.F[i]) {
				return false
			}
		}
		return true
	case *PtrV:
		bv, ok := b.(*PtrV)
		if !ok || av.Obj != bv.Obj || len(av.Path) != len(bv.Path) {
			return false
		}
		for i := range av.Path {
			if av.Path[i] != bv.Path[i] {
				return false
			}
		}
		return true
	case *SliceV:
		bv, ok := b.(*SliceV)
		if !ok || av.Obj != bv.Obj || av.Off != bv.Off || av.Len != bv.Len || av.Cap != bv.Cap || len(av.Path) != len(bv.Path) {
			return false
		}
		for i := range av.Path {
			if av.Path[i] != bv.Path[i] {
				return false
			}
		}
		return true
	case *IfaceV:
		bv, ok := b.(*IfaceV)
		if !ok {
			return false
		}
		if av.T == nil || bv.T == nil {
			return av.T == nil && bv.T == nil
		}
		return types.Identical(av.T, bv.T) && x.sameValue(av.V, bv.V)
	case *FuncV:
		bv, ok := b.(*FuncV)
		if !ok || av.Fn != bv.Fn || len(av.Bind) != len(bv.Bind) {
			return false
		}
		for i := range av.Bind {
			if !x.sameValue(av.Bind[i], bv.Bind[i]) {
				return false
			}
		}
		return true
	case *StrV:
		bv, ok := b.(*StrV)
		return ok && av.S == bv.S
	case *MapV:
		bv, ok := b.(*MapV)
		return ok && av.Obj == bv.Obj
	case *MapObj:
		bv, ok := b.(*MapObj)
		if !ok || len(av.Keys) != len(bv.Keys) {
			return false
		}
		for i := range av.Keys {
			if !x.sameValue(av.Keys[i], bv.Keys[i]) || !x.sameValue(av.Vals[i], bv.Vals[i]) {
				return false
			}
		}
		return true
	case *OpaqueV:
		bv, ok := b.(*OpaqueV)
		return ok && av.Tag == bv.Tag
	case *BigV:
		bv, ok := b.(*BigV)
		return ok && av.R == bv.R && av.Prec == bv.Prec
	case nil:
		return b == nil
	}
	return false
}

// setPath returns a copy of v with the sub-value at path replaced by nv.
// guard (may be nil) conditions the write.
func (x *Exec) setPath(v Value, path []PE, nv Value, guard *Term) Value {
	if len(path) == 0 {
		if guard == nil {
			return nv
		}
		return x.iteValue(guard, nv, v)
	}
	sv, ok := v.(*StructV)
	if !ok {
		panic(x.fault("store path into non-aggregate %T", v))
	}
	pe := path[0]
	out := make([]Value, len(sv.F))
	copy(out, sv.F)
	if pe.Sym == nil {
		if pe.I < 0 || pe.I >= len(sv.F) {
			panic(x.fault("store index %d out of range %d", pe.I, len(sv.F)))
		}
		out[pe.I] = x.setPath(sv.F[pe.I], path[1:], nv, guard)
		return &StructV{F: out}
	}
	for k := 0; k < pe.N; k++ {
		g := x.tf.Eq(pe.Sym, x.tf.BV(uint64(k), 64))
		if guard != nil {
			g = x.tf.And(guard, g)
		}
		out[pe.Base+k] = x.setPath(sv.F[pe.Base+k], path[1:], nv, g)
	}
	return &StructV{F: out}
}

func (x *Exec) load(st *State, p *PtrV) Value {
	obj, ok := st.heap[p.Obj]
	if !ok {
		panic(x.fault("load from unknown object %d", p.Obj))
	}
	return x.getPath(obj, p.Path)
}

func (x *Exec) store(st *State, p *PtrV, v Value) {
	obj, ok := st.heap[p.Obj]
	if !ok {
		panic(x.fault("store to unknown object %d", p.Obj))
	}
	st.heap[p.Obj] = x.setPath(obj, p.Path, v, nil)
}

func (x *Exec) show(v Value) string {
	switch t := v.(type) {
	case *Term:
		return t.String()
	case *StructV:
		if len(t.F) > 8 {
			return fmt.Sprintf("{%d fields}", len(t.F))
		}
		s := "{"
		for i, f := range t.F {
			if i > 0 {
				s += ","
			}
			s += x.show(f)
		}
		return s + "}"
	case *PtrV:
		if t.Obj == 0 {
			return "nil"
		}
		return fmt.Sprintf("&obj%d%v", t.Obj, t.Path)
	case *SliceV:
		return fmt.Sprintf("slice(obj%d,%d,%d,%d)", t.Obj, t.Off, t.Len, t.Cap)
	case *IfaceV:
		if t.T == nil {
			return "nil-iface"
		}
		return fmt.Sprintf("iface(%v,%s)", t.T, x.show(t.V))
	case *FuncV:
		if t.Fn == nil {
			return "nil-func"
		}
		return "func:" + t.Fn.String()
	case *StrV:
		return fmt.Sprintf("%q", t.S)
	case *MapV:
		return fmt.Sprintf("map(obj%d)", t.Obj)
	case *OpaqueV:
		return "opaque:" + t.Tag
	case *BigV:
		return "big:" + t.R.String()
	case nil:
		return "<nil>"
	}
	return fmt.Sprintf("%T", v)
}
