package sx

import (
	"fmt"
	"math"
	"math/big"
	"math/bits"
	"sort"
	"strings"
)

// RUF domain: a float64 is the real number it denotes.  Rounded operations are
// uninterpreted functions over Real; for every operation instance in a query
// ground instances of IEEE-754 (round-to-nearest-even) theorems are emitted.
// Assumptions (listed in the evidence): no NaN, no overflow to ±Inf in
// intermediate results; ±0 identified.

type rufInst struct {
	kind string // add mul div sqrt rnd
	r    string // result
	a, b string // operands (SMT text)
	ta   *Term
	tb   *Term
	e    string // exact result when linear, else ""
	slack bool  // absolute underflow slack needed
}

type rufState struct {
	insts     []*rufInst
	witnesses map[string]bool
	lemmaCnt  map[string]int
	intVars   int
}

func newRufState() *rufState {
	return &rufState{witnesses: map[string]bool{}, lemmaCnt: map[string]int{}}
}

func (r *rufState) noteVar(p *Printer, t *Term) { r.witnesses[smtName(t.Name)] = true }

const (
	rufU      = "(/ 1.0 9007199254740992.0)" // 2^-53
	rufOneP   = "(/ 9007199254740993.0 9007199254740992.0)"
	rufOneM   = "(/ 9007199254740991.0 9007199254740992.0)"
)

var rufEta = ratStr(new(big.Rat).SetFrac(big.NewInt(1), new(big.Int).Lsh(big.NewInt(1), 1075)))
var rufMinNormal = ratStr(new(big.Rat).SetFrac(big.NewInt(1), new(big.Int).Lsh(big.NewInt(1), 1022)))

func isPow2Float(x float64) bool {
	if x == 0 || math.IsInf(x, 0) || math.IsNaN(x) {
		return false
	}
	m := math.Float64bits(math.Abs(x)) & ((1 << 52) - 1)
	e := (math.Float64bits(math.Abs(x)) >> 52) & 0x7ff
	if e == 0 {
		return bits.OnesCount64(m) == 1
	}
	return m == 0
}

func (p *Printer) renderRUF(t *Term) string {
	a := func(i int) string { return p.ref(t.Args[i]) }
	rs := p.ruf
	switch t.Op {
	case OFNeg:
		return fmt.Sprintf("(- %s)", a(0))
	case OFAbs:
		x := a(0)
		return fmt.Sprintf("(ite (>= %s 0.0) %s (- %s))", x, x, x)
	case OFLt:
		return fmt.Sprintf("(< %s %s)", a(0), a(1))
	case OFLe:
		return fmt.Sprintf("(<= %s %s)", a(0), a(1))
	case OFEq:
		return fmt.Sprintf("(= %s %s)", a(0), a(1))
	case OFIsNaN, OFIsInf:
		return "false"
	case OFToReal:
		return a(0)
	case OFAdd, OFSub:
		x, y := a(0), a(1)
		if t.Op == OFSub {
			// fsub(x,y) = fadd(x,-y)  (L2)
			y = negStr(y)
		}
		// canonical operand order for commutativity (L1)
		if x > y {
			x, y = y, x
		}
		p.declareRaw("fadd", "(Real Real) Real")
		p.UsedUF["fadd"]++
		r := fmt.Sprintf("(fadd %s %s)", x, y)
		rs.insts = append(rs.insts, &rufInst{kind: "add", r: r, a: x, b: y, e: fmt.Sprintf("(+ %s %s)", x, y)})
		rs.witnesses[r] = true
		return r
	case OFMul:
		x, y := a(0), a(1)
		ca, cb := t.Args[0], t.Args[1]
		if ca.IsConst() {
			x, y = y, x
			ca, cb = cb, ca
		}
		if cb.IsConst() && (cb.F == 1 || cb.F == -1) {
			if cb.F == 1 {
				return x
			}
			return negStr(x)
		}
		if x > y && !cb.IsConst() {
			x, y = y, x
		}
		p.declareRaw("fmul", "(Real Real) Real")
		p.UsedUF["fmul"]++
		r := fmt.Sprintf("(fmul %s %s)", x, y)
		in := &rufInst{kind: "mul", r: r, a: x, b: y, ta: ca, tb: cb, slack: true}
		if cb.IsConst() {
			in.e = fmt.Sprintf("(* %s %s)", x, y)
			if isPow2Float(cb.F) {
				in.kind = "scale"
			}
		}
		rs.insts = append(rs.insts, in)
		rs.witnesses[r] = true
		return r
	case OFDiv:
		x, y := a(0), a(1)
		cb := t.Args[1]
		p.declareRaw("fdiv", "(Real Real) Real")
		p.UsedUF["fdiv"]++
		r := fmt.Sprintf("(fdiv %s %s)", x, y)
		in := &rufInst{kind: "div", r: r, a: x, b: y, ta: t.Args[0], tb: cb, slack: true}
		if cb.IsConst() && cb.F != 0 {
			in.e = fmt.Sprintf("(/ %s %s)", x, y)
			if isPow2Float(cb.F) {
				in.kind = "scale"
			}
		}
		rs.insts = append(rs.insts, in)
		rs.witnesses[r] = true
		return r
	case OFSqrt:
		x := a(0)
		p.declareRaw("fsqrt", "(Real) Real")
		p.UsedUF["fsqrt"]++
		r := fmt.Sprintf("(fsqrt %s)", x)
		rs.insts = append(rs.insts, &rufInst{kind: "sqrt", r: r, a: x})
		rs.witnesses[r] = true
		return r
	case ORealToF:
		x := a(0)
		p.declareRaw("frnd", "(Real) Real")
		p.UsedUF["frnd"]++
		r := fmt.Sprintf("(frnd %s)", x)
		rs.insts = append(rs.insts, &rufInst{kind: "rnd", r: r, a: x, e: x})
		rs.witnesses[r] = true
		return r
	case OSIntToF, OUIntToF:
		// pattern float -> int (truncation) -> float: the result is the integer part of y
		// (exact below 2^31; L8), expressed with an Int witness
		if src := t.Args[0]; t.Op == OSIntToF {
			for src.Op == OSExt || src.Op == OExtract {
				src = src.Args[0]
			}
			if src.Op == OFToSInt {
				y := p.ref(src.Args[0])
				rs.intVars++
				k := fmt.Sprintf("k!%d", rs.intVars)
				p.declareRaw(k, "() Int")
				r := fmt.Sprintf("(to_real %s)", k)
				lim := "2147483648.0"
				if src.S.W >= 64 {
					lim = "9007199254740992.0" // exact-integer range of float64 (2^53)
				}
				rs.lemma(p, "L8", fmt.Sprintf("(=> (and (< %s "+lim+") (> %s (- "+lim+"))) (ite (>= %s 0.0) (and (<= %s %s) (< %s (+ %s 1.0))) (and (>= %s %s) (> %s (- %s 1.0)))))", y, y, y, r, y, y, r, r, y, y, r))
				rs.witnesses[r] = true
				return r
			}
		}
		n := fmt.Sprintf("i2f_%d_%d", t.Op, t.Args[0].S.W)
		p.declareRaw(n, fmt.Sprintf("((_ BitVec %d)) Real", t.Args[0].S.W))
		p.UsedUF[n]++
		r := fmt.Sprintf("(%s %s)", n, a(0))
		rs.insts = append(rs.insts, &rufInst{kind: "i2f", r: r, a: a(0), ta: t.Args[0], b: fmt.Sprint(t.Op == OSIntToF)})
		rs.witnesses[r] = true
		return r
	case OFToSInt:
		n := fmt.Sprintf("f2i_%d", t.S.W)
		p.declareRaw(n, fmt.Sprintf("(Real) (_ BitVec %d)", t.S.W))
		p.UsedUF[n]++
		return fmt.Sprintf("(%s %s)", n, a(0))
	case OFBits:
		p.declareRaw("fbits", "(Real) (_ BitVec 64)")
		p.UsedUF["fbits"]++
		return fmt.Sprintf("(fbits %s)", a(0))
	case OFFromBits:
		p.declareRaw("ffrombits", "((_ BitVec 64)) Real")
		p.UsedUF["ffrombits"]++
		r := fmt.Sprintf("(ffrombits %s)", a(0))
		rs.witnesses[r] = true
		return r
	case OFFun:
		if t.Name == "exact_add" {
			return fmt.Sprintf("(+ %s %s)", a(0), a(1))
		}
		if t.Name == "exact_sub" {
			return fmt.Sprintf("(- %s %s)", a(0), a(1))
		}
		var as []string
		for i := range t.Args {
			as = append(as, a(i))
		}
		n := "f_" + t.Name
		p.declareRaw(n, "("+strings.TrimSpace(strings.Repeat("Real ", len(as)))+") Real")
		p.UsedUF[n]++
		r := fmt.Sprintf("(%s %s)", n, strings.Join(as, " "))
		in := &rufInst{kind: "fun:" + t.Name, r: r, a: as[0], ta: t.Args[0]}
		if len(as) > 1 {
			in.b = as[1]
			in.tb = t.Args[1]
		}
		rs.insts = append(rs.insts, in)
		rs.witnesses[r] = true
		return r
	}
	p.fail(fmt.Sprintf("unsupported op %d in RUF", t.Op))
	return "false"
}

func negStr(s string) string {
	if strings.HasPrefix(s, "(- ") && strings.HasSuffix(s, ")") && balanced(s[3:len(s)-1]) && !strings.Contains(topLevel(s[3:len(s)-1]), " ") {
		return s[3 : len(s)-1]
	}
	return "(- " + s + ")"
}

func balanced(s string) bool {
	d := 0
	for _, c := range s {
		if c == '(' {
			d++
		} else if c == ')' {
			d--
			if d < 0 {
				return false
			}
		}
	}
	return d == 0
}

// topLevel replaces nested parenthesised groups by "_" so that a space at top level reveals a binary minus.
func topLevel(s string) string {
	var sb strings.Builder
	d := 0
	for _, c := range s {
		if c == '(' {
			d++
			if d == 1 {
				sb.WriteByte('_')
			}
			continue
		}
		if c == ')' {
			d--
			continue
		}
		if d == 0 {
			sb.WriteRune(c)
		}
	}
	return sb.String()
}

func (rs *rufState) lemma(p *Printer, class, s string) {
	rs.lemmaCnt[class]++
	p.extra = append(p.extra, s)
}

func absStr(x string) string { return fmt.Sprintf("(ite (>= %s 0.0) %s (- %s))", x, x, x) }

// relErr: |r - e| <= u*|e| (+ eta)
func relErr(r, e string, slack bool) string {
	s := ""
	if slack {
		s = rufEta
	} else {
		s = "0.0"
	}
	return fmt.Sprintf("(let ((e! %s)) (ite (>= e! 0.0) (and (<= (- (* %s e!) %s) %s) (<= %s (+ (* %s e!) %s))) (and (<= (- (* %s e!) %s) %s) (<= %s (+ (* %s e!) %s)))))",
		e, rufOneM, s, r, r, rufOneP, s, rufOneP, s, r, r, rufOneM, s)
}

func (rs *rufState) emitLemmas(p *Printer) {
	// witness list (representable values occurring in the query)
	var wit []string
	for w := range rs.witnesses {
		wit = append(wit, w)
	}
	sort.Strings(wit)
	wit = append(wit, "0.0", "1.0", "(- 1.0)")
	nLin := 0
	for _, in := range rs.insts {
		if in.e != "" {
			nLin++
		}
	}
	useWit := nLin*len(wit) <= 6000 && !p.Light
	for _, in := range rs.insts {
		switch in.kind {
		case "add":
			rs.lemma(p, "L4", relErr(in.r, in.e, false))
		case "rnd":
			// rounding an arbitrary real to double: relative error plus the subnormal absolute term
			rs.lemma(p, "L4", relErr(in.r, in.e, !p.tf.NoUnderflow))
		case "scale":
			// L7: exact scaling by a power of two unless the result is subnormal
			rs.lemma(p, "L7", fmt.Sprintf("(let ((e! %s)) (or (= %s e!) (and (< %s %s) (<= %s %s))))", in.e, in.r, absStr("e!"), rufMinNormal, absStr(fmt.Sprintf("(- %s e!)", in.r)), rufEta))
			rs.lemma(p, "L5", fmt.Sprintf("(and (=> (>= %s 0.0) (>= %s 0.0)) (=> (<= %s 0.0) (<= %s 0.0)))", in.e, in.r, in.e, in.r))
		case "mul", "div":
			if in.e != "" {
				rs.lemma(p, "L4", relErr(in.r, in.e, true))
				rs.lemma(p, "L5", fmt.Sprintf("(and (=> (>= %s 0.0) (>= %s 0.0)) (=> (<= %s 0.0) (<= %s 0.0)))", in.e, in.r, in.e, in.r))
			} else {
				// L5 sign rules for products / quotients of two variables
				x, y, r := in.a, in.b, in.r
				rs.lemma(p, "L5", fmt.Sprintf("(and (=> (= %s 0.0) (= %s 0.0)) (=> (or (and (>= %s 0.0) (>= %s 0.0)) (and (<= %s 0.0) (<= %s 0.0))) (>= %s 0.0)) (=> (or (and (>= %s 0.0) (<= %s 0.0)) (and (<= %s 0.0) (>= %s 0.0))) (<= %s 0.0)))",
					x, r, x, y, x, y, r, x, y, x, y, r))
				if in.kind == "mul" {
					rs.lemma(p, "L5", fmt.Sprintf("(=> (= %s 0.0) (= %s 0.0))", y, r))
					// x*x >= 0 is covered by the sign rule; |x|<=1 & |y|<=1 => |r|<=1 (monotone rounding, 1 representable)
					rs.lemma(p, "L3", fmt.Sprintf("(=> (and (<= %s 1.0) (<= %s 1.0)) (<= %s 1.0))", absStr(x), absStr(y), absStr(r)))
				}
			}
		case "sqrt":
			rs.lemma(p, "L2", fmt.Sprintf("(>= %s 0.0)", in.r))
			rs.lemma(p, "L5", fmt.Sprintf("(=> (= %s 0.0) (= %s 0.0))", in.a, in.r))
			rs.lemma(p, "L5", fmt.Sprintf("(=> (> %s 0.0) (> %s 0.0))", in.a, in.r))
			// monotone rounding of the exact root against 1
			rs.lemma(p, "L3", fmt.Sprintf("(and (=> (<= %s 1.0) (<= %s 1.0)) (=> (>= %s 1.0) (>= %s 1.0)))", in.a, in.r, in.a, in.r))
		case "i2f":
			// L8: value of a small integer constant range is handled by folding; symbolic: sign only
			if in.b == "true" {
				w := in.ta.S.W
				rs.lemma(p, "L8", fmt.Sprintf("(and (=> (bvsge %s %s) (>= %s 0.0)) (=> (bvsle %s %s) (<= %s 0.0)))", in.a, bvLit(0, w), in.r, in.a, bvLit(0, w), in.r))
			} else {
				rs.lemma(p, "L8", fmt.Sprintf("(>= %s 0.0)", in.r))
			}
		}
		if strings.HasPrefix(in.kind, "fun:") {
			rs.funLemmas(p, in)
		}
		if in.e != "" && useWit {
			// L3: monotone rounding against representable witnesses
			for _, z := range wit {
				if z == in.r {
					continue
				}
				rs.lemma(p, "L3", fmt.Sprintf("(and (=> (<= %s %s) (<= %s %s)) (=> (>= %s %s) (>= %s %s)))", in.e, z, in.r, z, in.e, z, in.r, z))
			}
		}
	}
	if p.Light {
		return
	}
	// pairwise lemmas: L2 sign symmetry, L6 monotonicity
	byKind := map[string][]*rufInst{}
	for _, in := range rs.insts {
		k := in.kind
		if k == "scale" {
			continue
		}
		byKind[k] = append(byKind[k], in)
	}
	for _, k := range []string{"add", "mul", "div", "sqrt", "rnd"} {
		l := byKind[k]
		if len(l) > 90 {
			continue
		}
		for i := 0; i < len(l); i++ {
			for j := i + 1; j < len(l); j++ {
				x, y := l[i], l[j]
				switch k {
				case "add":
					rs.lemma(p, "L2", fmt.Sprintf("(=> (or (and (= %s (- %s)) (= %s (- %s))) (and (= %s (- %s)) (= %s (- %s)))) (= %s (- %s)))", x.a, y.a, x.b, y.b, x.a, y.b, x.b, y.a, x.r, y.r))
					rs.lemma(p, "L1", fmt.Sprintf("(=> (and (= %s %s) (= %s %s)) (= %s %s))", x.a, y.b, x.b, y.a, x.r, y.r))
					// L6 monotone in both arguments
					rs.lemma(p, "L6", fmt.Sprintf("(and (=> (and (<= %s %s) (<= %s %s)) (<= %s %s)) (=> (and (>= %s %s) (>= %s %s)) (>= %s %s)))", x.a, y.a, x.b, y.b, x.r, y.r, x.a, y.a, x.b, y.b, x.r, y.r))
				case "mul":
					if x.e != "" && y.e != "" {
						continue
					}
					rs.lemma(p, "L1", fmt.Sprintf("(=> (and (= %s %s) (= %s %s)) (= %s %s))", x.a, y.b, x.b, y.a, x.r, y.r))
					rs.lemma(p, "L2", fmt.Sprintf("(=> (or (and (= %s (- %s)) (= %s %s)) (and (= %s %s) (= %s (- %s))) (and (= %s (- %s)) (= %s %s)) (and (= %s %s) (= %s (- %s)))) (= %s (- %s)))",
						x.a, y.a, x.b, y.b, x.a, y.a, x.b, y.b, x.a, y.b, x.b, y.a, x.a, y.b, x.b, y.a, x.r, y.r))
					rs.lemma(p, "L2", fmt.Sprintf("(=> (or (and (= %s (- %s)) (= %s (- %s))) (and (= %s (- %s)) (= %s (- %s)))) (= %s %s))", x.a, y.a, x.b, y.b, x.a, y.b, x.b, y.a, x.r, y.r))
				case "div":
					rs.lemma(p, "L2", fmt.Sprintf("(=> (or (and (= %s (- %s)) (= %s %s)) (and (= %s %s) (= %s (- %s)))) (= %s (- %s)))", x.a, y.a, x.b, y.b, x.a, y.a, x.b, y.b, x.r, y.r))
					rs.lemma(p, "L2", fmt.Sprintf("(=> (and (= %s (- %s)) (= %s (- %s))) (= %s %s))", x.a, y.a, x.b, y.b, x.r, y.r))
					// L6: same positive divisor => monotone in the numerator
					rs.lemma(p, "L6", fmt.Sprintf("(=> (and (= %s %s) (> %s 0.0) (<= %s %s)) (<= %s %s))", x.b, y.b, x.b, x.a, y.a, x.r, y.r))
					rs.lemma(p, "L6", fmt.Sprintf("(=> (and (= %s %s) (> %s 0.0) (>= %s %s)) (>= %s %s))", x.b, y.b, x.b, x.a, y.a, x.r, y.r))
				case "sqrt", "rnd":
					rs.lemma(p, "L6", fmt.Sprintf("(and (=> (<= %s %s) (<= %s %s)) (=> (>= %s %s) (>= %s %s)))", x.a, y.a, x.r, y.r, x.a, y.a, x.r, y.r))
					if k == "rnd" {
						rs.lemma(p, "L2", fmt.Sprintf("(=> (= %s (- %s)) (= %s (- %s)))", x.a, y.a, x.r, y.r))
					}
				}
			}
		}
	}
	// mul: monotonicity in one argument for a shared non-negative other argument (L6)
	if l := byKind["mul"]; len(l) <= 60 {
		for i := 0; i < len(l); i++ {
			for j := 0; j < len(l); j++ {
				if i == j {
					continue
				}
				x, y := l[i], l[j]
				if x.e != "" && y.e != "" {
					continue
				}
				for _, c := range [][4]string{{x.a, x.b, y.a, y.b}, {x.a, x.b, y.b, y.a}, {x.b, x.a, y.a, y.b}, {x.b, x.a, y.b, y.a}} {
					// shared factor c[0]==c[2] >= 0 and c[1] <= c[3] => x.r <= y.r
					if c[0] != c[2] {
						continue
					}
					rs.lemma(p, "L6", fmt.Sprintf("(=> (and (>= %s 0.0) (<= %s %s)) (<= %s %s))", c[0], c[1], c[3], x.r, y.r))
					rs.lemma(p, "L6", fmt.Sprintf("(=> (and (<= %s 0.0) (<= %s %s)) (>= %s %s))", c[0], c[1], c[3], x.r, y.r))
				}
			}
		}
	}
}

func (rs *rufState) funLemmas(p *Printer, in *rufInst) {
	name := strings.TrimPrefix(in.kind, "fun:")
	pi := ratStr(new(big.Rat).SetFloat64(math.Pi))
	pi2 := ratStr(new(big.Rat).SetFloat64(math.Pi / 2))
	r := in.r
	switch name {
	case "sin", "cos":
		rs.lemma(p, "L10", fmt.Sprintf("(and (<= (- 1.0) %s) (<= %s 1.0))", r, r))
	case "atan2":
		rs.lemma(p, "L10", fmt.Sprintf("(and (<= (- %s) %s) (<= %s %s))", pi, r, r, pi))
	case "asin", "atan":
		rs.lemma(p, "L10", fmt.Sprintf("(and (<= (- %s) %s) (<= %s %s))", pi2, r, r, pi2))
		rs.lemma(p, "L10", fmt.Sprintf("(and (=> (>= %s 0.0) (>= %s 0.0)) (=> (<= %s 0.0) (<= %s 0.0)))", in.a, r, in.a, r))
	case "acos":
		rs.lemma(p, "L10", fmt.Sprintf("(and (<= 0.0 %s) (<= %s %s))", r, r, pi))
	case "exp":
		rs.lemma(p, "L10", fmt.Sprintf("(> %s 0.0)", r))
	case "hypot":
		rs.lemma(p, "L10", fmt.Sprintf("(>= %s 0.0)", r))
	case "floor", "ceil", "trunc", "round", "rint":
		rs.intVars++
		k := fmt.Sprintf("k!%d", rs.intVars)
		p.declareRaw(k, "() Int")
		x := in.a
		rs.lemma(p, "L8", fmt.Sprintf("(= %s (to_real %s))", r, k))
		switch name {
		case "floor":
			rs.lemma(p, "L8", fmt.Sprintf("(and (<= %s %s) (< %s (+ %s 1.0)))", r, x, x, r))
		case "ceil":
			rs.lemma(p, "L8", fmt.Sprintf("(and (>= %s %s) (> %s (- %s 1.0)))", r, x, x, r))
		case "trunc":
			rs.lemma(p, "L8", fmt.Sprintf("(ite (>= %s 0.0) (and (<= %s %s) (< %s (+ %s 1.0))) (and (>= %s %s) (> %s (- %s 1.0))))", x, r, x, x, r, r, x, x, r))
		case "round", "rint":
			rs.lemma(p, "L8", fmt.Sprintf("(and (<= (- %s 0.5) %s) (<= %s (+ %s 0.5)))", x, r, r, x))
		}
	case "remainder":
		// L9: r = x - n*y, |r| <= |y|/2 (exact in IEEE arithmetic)
		rs.intVars++
		k := fmt.Sprintf("k!%d", rs.intVars)
		p.declareRaw(k, "() Int")
		x, y := in.a, in.b
		if in.tb != nil && in.tb.IsConst() {
			rs.lemma(p, "L9", fmt.Sprintf("(= %s (- %s (* (to_real %s) %s)))", r, x, k, y))
			rs.lemma(p, "L9", fmt.Sprintf("(<= (* 2.0 %s) %s)", absStr(r), absStr(y)))
		}
	case "copysign":
		x, y := in.a, in.b
		rs.lemma(p, "L2", fmt.Sprintf("(and (=> (> %s 0.0) (= %s %s)) (=> (< %s 0.0) (= %s (- %s))))", y, r, absStr(x), y, r, absStr(x)))
	}
}
