// Package sx is the symbolic executor for go/ssa ("gosmt"): terms, SMT-LIB
// printing, solver management, the SSA interpreter, intrinsics, replay and
// evidence.  See /verif/DESIGN.md.
package sx

import (
	"fmt"
	"math"
	"math/big"
	"math/bits"
	"strings"
)

type Kind uint8

const (
	KBool Kind = iota
	KBV
	KFloat // float64; encoded per numeric domain at print time
	KReal  // exact reals (big.Float modelling, reference models)
)

type Sort struct {
	K Kind
	W int
}

var (
	SBool  = Sort{KBool, 0}
	SFloat = Sort{KFloat, 0}
	SReal  = Sort{KReal, 0}
)

func SBV(w int) Sort { return Sort{KBV, w} }

func (s Sort) String() string {
	switch s.K {
	case KBool:
		return "Bool"
	case KBV:
		return fmt.Sprintf("(_ BitVec %d)", s.W)
	case KFloat:
		return "Float"
	case KReal:
		return "Real"
	}
	return "?"
}

type Op uint8

const (
	OVar Op = iota
	OConst
	ONot
	OAnd
	OOr
	OIte
	OEq
	// bit-vectors
	OAdd
	OSub
	OMul
	OUDiv
	OURem
	OSDiv
	OSRem
	OBAnd
	OBOr
	OBXor
	OShl
	OLShr
	OAShr
	ONeg
	OBNot
	OULt
	OULe
	OSLt
	OSLe
	OConcat
	OExtract
	OZExt
	OSExt
	// floats (float64)
	OFAdd
	OFSub
	OFMul
	OFDiv
	OFNeg
	OFAbs
	OFSqrt
	OFLt
	OFLe
	OFEq // IEEE ==
	OFIsNaN
	OFIsInf
	OFToSInt   // float -> signed bv W (truncation toward zero)
	OSIntToF   // signed bv -> float
	OUIntToF   // unsigned bv -> float
	OFBits     // float -> bv64
	OFFromBits // bv64 -> float
	OFFun      // named float function (Name, args): sin, cos, remainder, floor, ...
	OFToReal   // float -> real (exact value)
	ORealToF   // real -> float (round to nearest)
	// reals
	ORAdd
	ORSub
	ORMul
	ORDiv
	ORNeg
	ORLt
	ORLe
	// uninterpreted function (Name, args) with result sort
	OUF
)

type Term struct {
	ID   int
	Op   Op
	S    Sort
	Args []*Term
	U    uint64   // BV constant value / extract hi<<8|lo / ext amount
	F    float64  // float constant
	R    *big.Rat // real constant
	B    bool     // bool constant
	Name string   // var / function name
}

// TF is a hash-consing term factory (one per harness run; not thread-safe).
type TF struct {
	tab   map[string]*Term
	n     int
	True  *Term
	False *Term
	// NoUnderflow: RUF rounding lemmas assume that no rounded result is subnormal (vr.NoUnderflow)
	NoUnderflow bool
}

func NewTF() *TF {
	f := &TF{tab: map[string]*Term{}}
	f.True = f.mk(&Term{Op: OConst, S: SBool, B: true})
	f.False = f.mk(&Term{Op: OConst, S: SBool, B: false})
	return f
}

func (f *TF) key(t *Term) string {
	var sb strings.Builder
	fmt.Fprintf(&sb, "%d|%d.%d|", t.Op, t.S.K, t.S.W)
	switch t.Op {
	case OConst:
		switch t.S.K {
		case KBool:
			fmt.Fprintf(&sb, "%v", t.B)
		case KBV:
			fmt.Fprintf(&sb, "%x", t.U)
		case KFloat:
			fmt.Fprintf(&sb, "%x", math.Float64bits(t.F))
		case KReal:
			sb.WriteString(t.R.String())
		}
	case OVar:
		sb.WriteString(t.Name)
	default:
		if t.Name != "" {
			sb.WriteString(t.Name)
			sb.WriteByte('|')
		}
		if t.U != 0 {
			fmt.Fprintf(&sb, "u%x|", t.U)
		}
		for _, a := range t.Args {
			fmt.Fprintf(&sb, "%d,", a.ID)
		}
	}
	return sb.String()
}

func (f *TF) mk(t *Term) *Term {
	k := f.key(t)
	if o, ok := f.tab[k]; ok {
		return o
	}
	f.n++
	t.ID = f.n
	f.tab[k] = t
	return t
}

func (t *Term) IsConst() bool { return t.Op == OConst }
func (t *Term) IsTrue() bool  { return t.Op == OConst && t.S.K == KBool && t.B }
func (t *Term) IsFalse() bool { return t.Op == OConst && t.S.K == KBool && !t.B }

func mask(w int) uint64 {
	if w >= 64 {
		return ^uint64(0)
	}
	return (uint64(1) << uint(w)) - 1
}

func sext(u uint64, w int) int64 {
	if w >= 64 {
		return int64(u)
	}
	sh := uint(64 - w)
	return int64(u<<sh) >> sh
}

func (f *TF) Var(name string, s Sort) *Term { return f.mk(&Term{Op: OVar, S: s, Name: name}) }
func (f *TF) Bool(b bool) *Term {
	if b {
		return f.True
	}
	return f.False
}
func (f *TF) BV(u uint64, w int) *Term {
	return f.mk(&Term{Op: OConst, S: SBV(w), U: u & mask(w)})
}
func (f *TF) Float(x float64) *Term { return f.mk(&Term{Op: OConst, S: SFloat, F: x}) }
func (f *TF) Real(r *big.Rat) *Term {
	return f.mk(&Term{Op: OConst, S: SReal, R: new(big.Rat).Set(r)})
}
func (f *TF) RealInt(i int64) *Term { return f.Real(new(big.Rat).SetInt64(i)) }

func (f *TF) Not(a *Term) *Term {
	if a.IsConst() {
		return f.Bool(!a.B)
	}
	if a.Op == ONot {
		return a.Args[0]
	}
	return f.mk(&Term{Op: ONot, S: SBool, Args: []*Term{a}})
}

func (f *TF) And(as ...*Term) *Term {
	var out []*Term
	seen := map[int]bool{}
	for _, a := range as {
		if a.IsFalse() {
			return f.False
		}
		if a.IsTrue() || seen[a.ID] {
			continue
		}
		if a.Op == OAnd {
			for _, b := range a.Args {
				if !seen[b.ID] {
					seen[b.ID] = true
					out = append(out, b)
				}
			}
			continue
		}
		seen[a.ID] = true
		out = append(out, a)
	}
	for _, a := range out {
		if a.Op == ONot && seen[a.Args[0].ID] {
			return f.False
		}
	}
	switch len(out) {
	case 0:
		return f.True
	case 1:
		return out[0]
	}
	return f.mk(&Term{Op: OAnd, S: SBool, Args: out})
}

func (f *TF) Or(as ...*Term) *Term {
	var out []*Term
	seen := map[int]bool{}
	for _, a := range as {
		if a.IsTrue() {
			return f.True
		}
		if a.IsFalse() || seen[a.ID] {
			continue
		}
		if a.Op == OOr {
			for _, b := range a.Args {
				if !seen[b.ID] {
					seen[b.ID] = true
					out = append(out, b)
				}
			}
			continue
		}
		seen[a.ID] = true
		out = append(out, a)
	}
	for _, a := range out {
		if a.Op == ONot && seen[a.Args[0].ID] {
			return f.True
		}
	}
	switch len(out) {
	case 0:
		return f.False
	case 1:
		return out[0]
	}
	return f.mk(&Term{Op: OOr, S: SBool, Args: out})
}

func (f *TF) Implies(a, b *Term) *Term { return f.Or(f.Not(a), b) }

func (f *TF) Ite(c, a, b *Term) *Term {
	if c.IsConst() {
		if c.B {
			return a
		}
		return b
	}
	if a == b {
		return a
	}
	if a.S != b.S {
		panic(fmt.Sprintf("ite sort mismatch %v %v", a.S, b.S))
	}
	if a.S.K == KBool {
		if a.IsTrue() && b.IsFalse() {
			return c
		}
		if a.IsFalse() && b.IsTrue() {
			return f.Not(c)
		}
		if a.IsTrue() {
			return f.Or(c, b)
		}
		if a.IsFalse() {
			return f.And(f.Not(c), b)
		}
		if b.IsTrue() {
			return f.Or(f.Not(c), a)
		}
		if b.IsFalse() {
			return f.And(c, a)
		}
	}
	if c.Op == ONot {
		return f.Ite(c.Args[0], b, a)
	}
	// ite(c, x, ite(c, y, z)) = ite(c, x, z)
	if b.Op == OIte && b.Args[0] == c {
		return f.Ite(c, a, b.Args[2])
	}
	if a.Op == OIte && a.Args[0] == c {
		return f.Ite(c, a.Args[1], b)
	}
	return f.mk(&Term{Op: OIte, S: a.S, Args: []*Term{c, a, b}})
}

func (f *TF) Eq(a, b *Term) *Term {
	if a.S != b.S {
		panic(fmt.Sprintf("eq sort mismatch %v %v (%s, %s)", a.S, b.S, a, b))
	}
	if a.S.K == KFloat {
		panic("Eq on floats: use FEq or BitsEq")
	}
	if a == b {
		return f.True
	}
	if a.IsConst() && b.IsConst() {
		switch a.S.K {
		case KBool:
			return f.Bool(a.B == b.B)
		case KBV:
			return f.Bool(a.U == b.U)
		case KReal:
			return f.Bool(a.R.Cmp(b.R) == 0)
		}
	}
	if a.S.K == KBool {
		if a.IsConst() {
			a, b = b, a
		}
		if b.IsConst() {
			if b.B {
				return a
			}
			return f.Not(a)
		}
	}
	// eq(ite(c,k1,k2), k) with constants
	if b.IsConst() && a.Op == OIte && a.Args[1].IsConst() && a.Args[2].IsConst() {
		return f.Ite(a.Args[0], f.Eq(a.Args[1], b), f.Eq(a.Args[2], b))
	}
	if a.IsConst() && b.Op == OIte && b.Args[1].IsConst() && b.Args[2].IsConst() {
		return f.Ite(b.Args[0], f.Eq(b.Args[1], a), f.Eq(b.Args[2], a))
	}
	if a.ID > b.ID {
		a, b = b, a
	}
	return f.mk(&Term{Op: OEq, S: SBool, Args: []*Term{a, b}})
}

func (f *TF) bin(op Op, s Sort, a, b *Term) *Term {
	return f.mk(&Term{Op: op, S: s, Args: []*Term{a, b}})
}

// BVBin builds a bit-vector binary operation with constant folding.
func (f *TF) BVBin(op Op, a, b *Term) *Term {
	if a.S != b.S || a.S.K != KBV {
		panic(fmt.Sprintf("bvbin %d sort mismatch %v %v", op, a.S, b.S))
	}
	w := a.S.W
	if a.IsConst() && b.IsConst() {
		x, y := a.U, b.U
		var r uint64
		switch op {
		case OAdd:
			r = x + y
		case OSub:
			r = x - y
		case OMul:
			r = x * y
		case OUDiv:
			if y == 0 {
				r = mask(w)
			} else {
				r = x / y
			}
		case OURem:
			if y == 0 {
				r = x
			} else {
				r = x % y
			}
		case OSDiv:
			sx, sy := sext(x, w), sext(y, w)
			if sy == 0 {
				if sx < 0 {
					r = 1
				} else {
					r = mask(w)
				}
			} else if sy == -1 {
				r = uint64(-sx)
			} else {
				r = uint64(sx / sy)
			}
		case OSRem:
			sx, sy := sext(x, w), sext(y, w)
			if sy == 0 {
				r = x
			} else if sy == -1 {
				r = 0
			} else {
				r = uint64(sx % sy)
			}
		case OBAnd:
			r = x & y
		case OBOr:
			r = x | y
		case OBXor:
			r = x ^ y
		case OShl:
			if y >= uint64(w) {
				r = 0
			} else {
				r = x << y
			}
		case OLShr:
			if y >= uint64(w) {
				r = 0
			} else {
				r = x >> y
			}
		case OAShr:
			sx := sext(x, w)
			if y >= uint64(w) {
				y = uint64(w - 1)
			}
			r = uint64(sx >> y)
		default:
			panic("bvbin op")
		}
		return f.BV(r, w)
	}
	// algebraic simplifications
	switch op {
	case OAdd:
		if a.IsConst() {
			a, b = b, a
		}
		if b.IsConst() && b.U == 0 {
			return a
		}
		// (x + c1) + c2
		if b.IsConst() && a.Op == OAdd && a.Args[1].IsConst() {
			return f.BVBin(OAdd, a.Args[0], f.BV(a.Args[1].U+b.U, w))
		}
	case OSub:
		if b.IsConst() && b.U == 0 {
			return a
		}
		if a == b {
			return f.BV(0, w)
		}
		if b.IsConst() {
			return f.BVBin(OAdd, a, f.BV(-b.U, w))
		}
	case OMul:
		if a.IsConst() {
			a, b = b, a
		}
		if b.IsConst() {
			if b.U == 0 {
				return b
			}
			if b.U == 1 {
				return a
			}
			if b.U&(b.U-1) == 0 {
				return f.BVBin(OShl, a, f.BV(uint64(bits.TrailingZeros64(b.U)), w))
			}
		}
	case OBAnd:
		if a.IsConst() {
			a, b = b, a
		}
		if b.IsConst() {
			if b.U == 0 {
				return b
			}
			if b.U == mask(w) {
				return a
			}
		}
		if a == b {
			return a
		}
	case OBOr:
		if a.IsConst() {
			a, b = b, a
		}
		if b.IsConst() {
			if b.U == 0 {
				return a
			}
			if b.U == mask(w) {
				return b
			}
		}
		if a == b {
			return a
		}
	case OBXor:
		if a.IsConst() {
			a, b = b, a
		}
		if b.IsConst() && b.U == 0 {
			return a
		}
		if a == b {
			return f.BV(0, w)
		}
	case OShl, OLShr, OAShr:
		if b.IsConst() && b.U == 0 {
			return a
		}
		if b.IsConst() && b.U >= uint64(w) && op != OAShr {
			return f.BV(0, w)
		}
		if a.IsConst() && a.U == 0 {
			return a
		}
	case OUDiv:
		if b.IsConst() && b.U == 1 {
			return a
		}
		if b.IsConst() && b.U != 0 && b.U&(b.U-1) == 0 {
			return f.BVBin(OLShr, a, f.BV(uint64(bits.TrailingZeros64(b.U)), w))
		}
	case OURem:
		if b.IsConst() && b.U != 0 && b.U&(b.U-1) == 0 {
			return f.BVBin(OBAnd, a, f.BV(b.U-1, w))
		}
	}
	return f.bin(op, a.S, a, b)
}

func (f *TF) BVCmp(op Op, a, b *Term) *Term {
	if a.S != b.S || a.S.K != KBV {
		panic(fmt.Sprintf("bvcmp sort mismatch %v %v", a.S, b.S))
	}
	w := a.S.W
	if a.IsConst() && b.IsConst() {
		switch op {
		case OULt:
			return f.Bool(a.U < b.U)
		case OULe:
			return f.Bool(a.U <= b.U)
		case OSLt:
			return f.Bool(sext(a.U, w) < sext(b.U, w))
		case OSLe:
			return f.Bool(sext(a.U, w) <= sext(b.U, w))
		}
	}
	if a == b {
		return f.Bool(op == OULe || op == OSLe)
	}
	if op == OULt && b.IsConst() && b.U == 0 {
		return f.False
	}
	// cheap unsigned range analysis: x < c / x <= c with umax(x) below c
	if b.IsConst() && (op == OULt || op == OULe) {
		m := f.umax(a, 6)
		if (op == OULt && m < b.U) || (op == OULe && m <= b.U) {
			return f.True
		}
	}
	if a.IsConst() && (op == OULt || op == OULe) {
		m := f.umax(b, 6)
		if (op == OULt && m <= a.U) || (op == OULe && m < a.U) {
			return f.False
		}
	}
	if b.IsConst() && (op == OSLt || op == OSLe) && sext(b.U, w) >= 0 {
		// signed compare with a non-negative constant when a is provably non-negative and small
		m := f.umax(a, 6)
		if m <= mask(w-1) && ((op == OSLt && m < b.U) || (op == OSLe && m <= b.U)) {
			return f.True
		}
	}
	if a.IsConst() && (op == OSLt || op == OSLe) && sext(a.U, w) <= 0 {
		// c <= x with c <= 0 and x provably non-negative
		m := f.umax(b, 6)
		if m <= mask(w-1) && (op == OSLe || sext(a.U, w) < 0) {
			return f.True
		}
	}
	if op == OULe && a.IsConst() && a.U == 0 {
		return f.True
	}
	return f.bin(op, SBool, a, b)
}

// umax returns an upper bound of the unsigned value of t (cheap, sound, incomplete).
func (f *TF) umax(t *Term, depth int) uint64 {
	w := t.S.W
	full := mask(w)
	if t.IsConst() {
		return t.U
	}
	if depth <= 0 {
		return full
	}
	switch t.Op {
	case OBAnd:
		a, b := f.umax(t.Args[0], depth-1), f.umax(t.Args[1], depth-1)
		if a < b {
			return a
		}
		return b
	case OBOr, OBXor:
		a, b := f.umax(t.Args[0], depth-1), f.umax(t.Args[1], depth-1)
		m := a | b
		// round up to all-ones below the top bit
		for i := uint(1); i < 64; i <<= 1 {
			m |= m >> i
		}
		return m & full
	case OZExt:
		return f.umax(t.Args[0], depth-1)
	case OExtract:
		lo := int(t.U & 0xff)
		a := f.umax(t.Args[0], depth-1) >> uint(lo)
		if a > full {
			return full
		}
		return a
	case OLShr:
		if t.Args[1].IsConst() {
			if t.Args[1].U >= uint64(w) {
				return 0
			}
			return f.umax(t.Args[0], depth-1) >> t.Args[1].U
		}
		return f.umax(t.Args[0], depth-1)
	case OURem:
		if t.Args[1].IsConst() && t.Args[1].U > 0 {
			return t.Args[1].U - 1
		}
	case OUDiv:
		if t.Args[1].IsConst() && t.Args[1].U > 0 {
			return f.umax(t.Args[0], depth-1) / t.Args[1].U
		}
	case OIte:
		a, b := f.umax(t.Args[1], depth-1), f.umax(t.Args[2], depth-1)
		if a > b {
			return a
		}
		return b
	case OAdd:
		a, b := f.umax(t.Args[0], depth-1), f.umax(t.Args[1], depth-1)
		if a <= full-b {
			return a + b
		}
	case OShl:
		if t.Args[1].IsConst() && t.Args[1].U < uint64(w) {
			a := f.umax(t.Args[0], depth-1)
			sh := t.Args[1].U
			if a <= full>>sh {
				return a << sh
			}
		}
	case OMul:
		if t.Args[1].IsConst() {
			a := f.umax(t.Args[0], depth-1)
			c := t.Args[1].U
			if c != 0 && a <= full/c {
				return a * c
			}
		}
	}
	return full
}

func (f *TF) BVNeg(a *Term) *Term {
	if a.IsConst() {
		return f.BV(-a.U, a.S.W)
	}
	return f.mk(&Term{Op: ONeg, S: a.S, Args: []*Term{a}})
}

func (f *TF) BVNot(a *Term) *Term {
	if a.IsConst() {
		return f.BV(^a.U, a.S.W)
	}
	if a.Op == OBNot {
		return a.Args[0]
	}
	return f.mk(&Term{Op: OBNot, S: a.S, Args: []*Term{a}})
}

func (f *TF) Extract(a *Term, hi, lo int) *Term {
	w := hi - lo + 1
	if lo == 0 && w == a.S.W {
		return a
	}
	if a.IsConst() {
		return f.BV(a.U>>uint(lo), w)
	}
	if a.Op == OZExt || a.Op == OSExt {
		in := a.Args[0]
		if hi < in.S.W {
			return f.Extract(in, hi, lo)
		}
		if a.Op == OZExt && lo >= in.S.W {
			return f.BV(0, w)
		}
	}
	if a.Op == OConcat {
		lw := a.Args[1].S.W
		if hi < lw {
			return f.Extract(a.Args[1], hi, lo)
		}
		if lo >= lw {
			return f.Extract(a.Args[0], hi-lw, lo-lw)
		}
	}
	if a.Op == OExtract {
		ilo := int(a.U & 0xff)
		return f.Extract(a.Args[0], hi+ilo, lo+ilo)
	}
	return f.mk(&Term{Op: OExtract, S: SBV(w), Args: []*Term{a}, U: uint64(hi)<<8 | uint64(lo)})
}

func (f *TF) Concat(hi, lo *Term) *Term {
	w := hi.S.W + lo.S.W
	if w > 64 {
		panic("concat > 64")
	}
	if hi.IsConst() && lo.IsConst() {
		return f.BV(hi.U<<uint(lo.S.W)|lo.U, w)
	}
	if hi.IsConst() && hi.U == 0 {
		return f.ZExt(lo, w)
	}
	// concat(extract(x,h,m+1), extract(x,m,l)) = extract(x,h,l)
	if hi.Op == OExtract && lo.Op == OExtract && hi.Args[0] == lo.Args[0] {
		hlo := int(hi.U & 0xff)
		lhi := int(lo.U >> 8)
		if hlo == lhi+1 {
			return f.Extract(hi.Args[0], int(hi.U>>8), int(lo.U&0xff))
		}
	}
	return f.mk(&Term{Op: OConcat, S: SBV(w), Args: []*Term{hi, lo}})
}

func (f *TF) ZExt(a *Term, w int) *Term {
	if w == a.S.W {
		return a
	}
	if w < a.S.W {
		return f.Extract(a, w-1, 0)
	}
	if a.IsConst() {
		return f.BV(a.U, w)
	}
	if a.Op == OZExt {
		return f.ZExt(a.Args[0], w)
	}
	return f.mk(&Term{Op: OZExt, S: SBV(w), Args: []*Term{a}, U: uint64(w - a.S.W)})
}

func (f *TF) SExt(a *Term, w int) *Term {
	if w == a.S.W {
		return a
	}
	if w < a.S.W {
		return f.Extract(a, w-1, 0)
	}
	if a.IsConst() {
		return f.BV(uint64(sext(a.U, a.S.W)), w)
	}
	return f.mk(&Term{Op: OSExt, S: SBV(w), Args: []*Term{a}, U: uint64(w - a.S.W)})
}

// ---------- floats

func (f *TF) FBin(op Op, a, b *Term) *Term {
	if a.S.K != KFloat || b.S.K != KFloat {
		panic("fbin sort")
	}
	if a.IsConst() && b.IsConst() {
		x, y := a.F, b.F
		switch op {
		case OFAdd:
			return f.Float(x + y)
		case OFSub:
			return f.Float(x - y)
		case OFMul:
			return f.Float(x * y)
		case OFDiv:
			return f.Float(x / y)
		}
	}
	if (op == OFAdd || op == OFMul) && a.ID > b.ID {
		a, b = b, a // commutative: canonical order (L1)
	}
	return f.bin(op, SFloat, a, b)
}

func (f *TF) FCmp(op Op, a, b *Term) *Term {
	if a.IsConst() && b.IsConst() {
		switch op {
		case OFLt:
			return f.Bool(a.F < b.F)
		case OFLe:
			return f.Bool(a.F <= b.F)
		case OFEq:
			return f.Bool(a.F == b.F)
		}
	}
	if op == OFEq && a.ID > b.ID {
		a, b = b, a
	}
	return f.bin(op, SBool, a, b)
}

func (f *TF) FUn(op Op, a *Term) *Term {
	if a.IsConst() {
		switch op {
		case OFNeg:
			return f.Float(-a.F)
		case OFAbs:
			return f.Float(math.Abs(a.F))
		case OFSqrt:
			return f.Float(math.Sqrt(a.F))
		case OFIsNaN:
			return f.Bool(math.IsNaN(a.F))
		case OFIsInf:
			return f.Bool(math.IsInf(a.F, 0))
		case OFBits:
			return f.BV(math.Float64bits(a.F), 64)
		}
	}
	switch op {
	case OFNeg:
		if a.Op == OFNeg {
			return a.Args[0]
		}
		return f.mk(&Term{Op: op, S: SFloat, Args: []*Term{a}})
	case OFAbs:
		if a.Op == OFAbs {
			return a
		}
		if a.Op == OFNeg {
			return f.FUn(OFAbs, a.Args[0])
		}
		return f.mk(&Term{Op: op, S: SFloat, Args: []*Term{a}})
	case OFSqrt:
		return f.mk(&Term{Op: op, S: SFloat, Args: []*Term{a}})
	case OFIsNaN, OFIsInf:
		return f.mk(&Term{Op: op, S: SBool, Args: []*Term{a}})
	case OFBits:
		if a.Op == OFFromBits {
			return a.Args[0]
		}
		return f.mk(&Term{Op: op, S: SBV(64), Args: []*Term{a}})
	}
	panic("fun op")
}

func (f *TF) FFromBits(a *Term) *Term {
	if a.IsConst() {
		return f.Float(math.Float64frombits(a.U))
	}
	if a.Op == OFBits {
		// note: identity on bit patterns (Go semantics on amd64 for moves)
		return a.Args[0]
	}
	return f.mk(&Term{Op: OFFromBits, S: SFloat, Args: []*Term{a}})
}

// FFun is a named float->float function application with concrete folding.
func (f *TF) FFun(name string, args ...*Term) *Term {
	all := true
	for _, a := range args {
		if !a.IsConst() {
			all = false
		}
	}
	if all {
		if fn, ok := concreteFFun[name]; ok {
			xs := make([]float64, len(args))
			for i, a := range args {
				xs[i] = a.F
			}
			return f.Float(fn(xs))
		}
	}
	return f.mk(&Term{Op: OFFun, S: SFloat, Args: args, Name: name})
}

var concreteFFun = map[string]func([]float64) float64{
	"exact_add": func(x []float64) float64 { return x[0] + x[1] },
	"exact_sub": func(x []float64) float64 { return x[0] - x[1] },
	"sin":       func(x []float64) float64 { return math.Sin(x[0]) },
	"cos":       func(x []float64) float64 { return math.Cos(x[0]) },
	"tan":       func(x []float64) float64 { return math.Tan(x[0]) },
	"asin":      func(x []float64) float64 { return math.Asin(x[0]) },
	"acos":      func(x []float64) float64 { return math.Acos(x[0]) },
	"atan":      func(x []float64) float64 { return math.Atan(x[0]) },
	"atan2":     func(x []float64) float64 { return math.Atan2(x[0], x[1]) },
	"exp":       func(x []float64) float64 { return math.Exp(x[0]) },
	"log":       func(x []float64) float64 { return math.Log(x[0]) },
	"log2":      func(x []float64) float64 { return math.Log2(x[0]) },
	"log10":     func(x []float64) float64 { return math.Log10(x[0]) },
	"sinh":      func(x []float64) float64 { return math.Sinh(x[0]) },
	"pow":       func(x []float64) float64 { return math.Pow(x[0], x[1]) },
	"floor":     func(x []float64) float64 { return math.Floor(x[0]) },
	"ceil":      func(x []float64) float64 { return math.Ceil(x[0]) },
	"trunc":     func(x []float64) float64 { return math.Trunc(x[0]) },
	"round":     func(x []float64) float64 { return math.Round(x[0]) },
	"rint":      func(x []float64) float64 { return math.RoundToEven(x[0]) },
	"remainder": func(x []float64) float64 { return math.Remainder(x[0], x[1]) },
	"mod":       func(x []float64) float64 { return math.Mod(x[0], x[1]) },
	"hypot":     func(x []float64) float64 { return math.Hypot(x[0], x[1]) },
	"copysign":  func(x []float64) float64 { return math.Copysign(x[0], x[1]) },
	"nextafter": func(x []float64) float64 { return math.Nextafter(x[0], x[1]) },
	"cbrt":      func(x []float64) float64 { return math.Cbrt(x[0]) },
}

func (f *TF) FToSInt(a *Term, w int) *Term {
	if a.IsConst() {
		// Go: out-of-range conversion is implementation-defined; fold only in range.
		if a.F == a.F && math.Abs(a.F) < 9.2e18 {
			return f.BV(uint64(int64(a.F)), w)
		}
	}
	return f.mk(&Term{Op: OFToSInt, S: SBV(w), Args: []*Term{a}})
}

func (f *TF) IntToF(a *Term, signed bool) *Term {
	if a.IsConst() {
		if signed {
			return f.Float(float64(sext(a.U, a.S.W)))
		}
		return f.Float(float64(a.U))
	}
	if a.Op == OIte {
		// conversion distributes over ite (keeps the float->int->float pattern visible)
		return f.Ite(a.Args[0], f.IntToF(a.Args[1], signed), f.IntToF(a.Args[2], signed))
	}
	op := OUIntToF
	if signed {
		op = OSIntToF
	}
	return f.mk(&Term{Op: op, S: SFloat, Args: []*Term{a}})
}

// ---------- reals

func (f *TF) RBin(op Op, a, b *Term) *Term {
	if a.S.K != KReal || b.S.K != KReal {
		panic("rbin sort")
	}
	if a.IsConst() && b.IsConst() {
		r := new(big.Rat)
		switch op {
		case ORAdd:
			return f.Real(r.Add(a.R, b.R))
		case ORSub:
			return f.Real(r.Sub(a.R, b.R))
		case ORMul:
			return f.Real(r.Mul(a.R, b.R))
		case ORDiv:
			if b.R.Sign() != 0 {
				return f.Real(r.Quo(a.R, b.R))
			}
		}
	}
	if op == ORMul {
		if a.IsConst() && a.R.Sign() == 0 {
			return a
		}
		if b.IsConst() && b.R.Sign() == 0 {
			return b
		}
	}
	if (op == ORAdd || op == ORMul) && a.ID > b.ID {
		a, b = b, a
	}
	return f.bin(op, SReal, a, b)
}

func (f *TF) RNeg(a *Term) *Term {
	if a.IsConst() {
		return f.Real(new(big.Rat).Neg(a.R))
	}
	if a.Op == ORNeg {
		return a.Args[0]
	}
	return f.mk(&Term{Op: ORNeg, S: SReal, Args: []*Term{a}})
}

func (f *TF) RCmp(op Op, a, b *Term) *Term {
	if a.IsConst() && b.IsConst() {
		c := a.R.Cmp(b.R)
		if op == ORLt {
			return f.Bool(c < 0)
		}
		return f.Bool(c <= 0)
	}
	if a == b {
		return f.Bool(op == ORLe)
	}
	return f.bin(op, SBool, a, b)
}

func (f *TF) FToReal(a *Term) *Term {
	if a.IsConst() && !math.IsNaN(a.F) && !math.IsInf(a.F, 0) {
		return f.Real(new(big.Rat).SetFloat64(a.F))
	}
	if a.Op == ORealToF && false {
		return a.Args[0]
	}
	return f.mk(&Term{Op: OFToReal, S: SReal, Args: []*Term{a}})
}

func (f *TF) RealToF(a *Term) *Term {
	if a.IsConst() {
		x, _ := a.R.Float64()
		return f.Float(x)
	}
	if a.Op == OFToReal {
		return a.Args[0]
	}
	return f.mk(&Term{Op: ORealToF, S: SFloat, Args: []*Term{a}})
}

func (f *TF) UF(name string, s Sort, args ...*Term) *Term {
	return f.mk(&Term{Op: OUF, S: s, Args: args, Name: name})
}

func (t *Term) String() string {
	switch t.Op {
	case OConst:
		switch t.S.K {
		case KBool:
			return fmt.Sprint(t.B)
		case KBV:
			return fmt.Sprintf("0x%x:%d", t.U, t.S.W)
		case KFloat:
			return fmt.Sprintf("%v", t.F)
		case KReal:
			return t.R.String()
		}
	case OVar:
		return t.Name
	}
	return fmt.Sprintf("t%d(op%d)", t.ID, t.Op)
}
