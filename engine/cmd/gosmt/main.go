// gosmt: bounded symbolic execution of golang/geo through go/ssa and SMT solvers.
package main

import (
	"flag"
	"fmt"
	"os"
	"strconv"

	"gosmt/sx"
)

func main() {
	if len(os.Args) < 2 {
		fmt.Println("usage: gosmt check|replay|list ...")
		os.Exit(2)
	}
	cmd := os.Args[1]
	fs := flag.NewFlagSet(cmd, flag.ExitOnError)
	repo := fs.String("repo", "/repo", "repository under test")
	verif := fs.String("verif", "/verif", "verification directory")
	prop := fs.String("property", "", "property id (Cxx)")
	tier := fs.String("tier", "", "quick|thorough (default: $VERIF_TIER or quick)")
	only := fs.String("only", "", "substring filter on harness names")
	workers := fs.Int("workers", 16, "parallel workers")
	verbose := fs.Bool("v", false, "verbose")
	fs.Parse(os.Args[2:])
	if *tier == "" {
		*tier = os.Getenv("VERIF_TIER")
	}
	if *tier != "thorough" {
		*tier = "quick"
	}
	seed, _ := strconv.Atoi(os.Getenv("VERIF_SEED"))
	opt := sx.Options{Repo: *repo, Verif: *verif, Tier: *tier, Property: *prop, Only: *only, Workers: *workers, Seed: seed, Verbose: *verbose}
	switch cmd {
	case "check":
		os.Exit(sx.Check(opt))
	case "replay":
		if fs.NArg() < 1 {
			fmt.Println("usage: gosmt replay <file>")
			os.Exit(2)
		}
		os.Exit(sx.Replay(opt, fs.Arg(0)))
	case "list":
		l, err := sx.Load(opt.Repo, opt.Verif+"/harness")
		if err != nil {
			fmt.Println(err)
			os.Exit(2)
		}
		for _, h := range l.Harnesses(*prop) {
			fmt.Println(h.Name())
		}
	default:
		fmt.Println("unknown command", cmd)
		os.Exit(2)
	}
}
