package r1

import "math"

// C19 (r1.Interval) — interval algebra is sound w.r.t. point membership.
// Exact IEEE-754 semantics (FPX): inputs are arbitrary finite doubles, including
// empty (Lo > Hi), singleton and ±0 endpoints; p is the universally quantified probe.

func vrFinite(name string) float64 {
	x := vr.Float64(name)
	vr.Assume(vr.And(!math.IsNaN(x), !math.IsInf(x, 0)))
	return x
}

func vrInterval(name string) Interval {
	return Interval{vrFinite(name + ".lo"), vrFinite(name + ".hi")}
}

func Harness_C19_r1_union_intersection() {
	vr.Domain("FPX")
	i, j := vrInterval("i"), vrInterval("j")
	p := vrFinite("p")
	ci, cj := i.Contains(p), j.Contains(p)
	u := i.Union(j)
	vr.Assert("Union contains every point of both", vr.Implies(vr.Or(ci, cj), u.Contains(p)))
	vr.Assert("Union is the smallest: endpoints come from the operands", vr.Or(u.IsEmpty(), vr.And(vr.Or(u.Lo == i.Lo, u.Lo == j.Lo), vr.Or(u.Hi == i.Hi, u.Hi == j.Hi))))
	x := i.Intersection(j)
	vr.Assert("Intersection = exactly the common points", x.Contains(p) == vr.And(ci, cj))
	vr.Assert("Intersects ⇔ intersection non-empty", i.Intersects(j) == !x.IsEmpty())
	vr.Assert("Intersects symmetric", i.Intersects(j) == j.Intersects(i))
	vr.Assert("InteriorIntersects ⇒ Intersects", vr.Implies(i.InteriorIntersects(j), i.Intersects(j)))
	vr.Reach("end")
}

func Harness_C19_r1_containment() {
	vr.Domain("FPX")
	i, j := vrInterval("i"), vrInterval("j")
	p := vrFinite("p")
	vr.Assert("ContainsInterval ⇒ pointwise", vr.Implies(vr.And(i.ContainsInterval(j), j.Contains(p)), i.Contains(p)))
	vr.Assert("endpoint witnesses ⇒ ContainsInterval", vr.Implies(vr.And(!j.IsEmpty(), vr.And(i.Contains(j.Lo), i.Contains(j.Hi))), i.ContainsInterval(j)))
	vr.Assert("empty is contained in everything", vr.Implies(j.IsEmpty(), i.ContainsInterval(j)))
	vr.Assert("InteriorContainsInterval ⇒ pointwise interior", vr.Implies(vr.And(i.InteriorContainsInterval(j), j.Contains(p)), i.InteriorContains(p)))
	vr.Assert("InteriorContains ⇒ Contains", vr.Implies(i.InteriorContains(p), i.Contains(p)))
	vr.Assert("Equal reflexive", i.Equal(i))
	vr.Assert("Equal symmetric", i.Equal(j) == j.Equal(i))
	vr.Assert("Equal ⇒ same points", vr.Implies(i.Equal(j), i.Contains(p) == j.Contains(p)))
	vr.Reach("end")
}

func Harness_C19_r1_points() {
	vr.Domain("FPX")
	i := vrInterval("i")
	p, q := vrFinite("p"), vrFinite("q")
	a := i.AddPoint(q)
	vr.Assert("AddPoint contains the added point", a.Contains(q))
	vr.Assert("AddPoint keeps old points", vr.Implies(i.Contains(p), a.Contains(p)))
	c := i.ClampPoint(p)
	vr.Assert("ClampPoint lands in the interval", vr.Implies(!i.IsEmpty(), i.Contains(c)))
	vr.Assert("ClampPoint is the identity inside", vr.Implies(i.Contains(p), c == p))
	m := vrFinite("m")
	vr.Assume(m >= 0)
	e := i.Expanded(m)
	vr.Assert("Expanded(m>=0) keeps every point", vr.Implies(i.Contains(p), e.Contains(p)))
	vr.Assert("Expanded of empty is empty", vr.Implies(i.IsEmpty(), e.IsEmpty()))
	vr.Reach("end")
}

func Harness_C19_r1_hausdorff() {
	vr.Domain("FPX")
	i, j := vrInterval("i"), vrInterval("j")
	d := i.DirectedHausdorffDistance(j)
	vr.Assert("distance >= 0", d >= 0)
	vr.Assert("distance 0 ⇔ contained (non-empty operands)", vr.Implies(vr.And(!i.IsEmpty(), !j.IsEmpty()), (d == 0) == j.ContainsInterval(i)))
	vr.Assert("empty source has distance 0", vr.Implies(i.IsEmpty(), d == 0))
	vr.Reach("end")
}
