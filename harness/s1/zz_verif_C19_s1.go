package s1

import "math"

// C19 (s1.Interval) — circular interval algebra is sound w.r.t. point membership,
// including empty, full, singleton, inverted intervals and the ±π representations.
// Exact IEEE-754 semantics (FPX) for the add/sub/compare code; Expanded (which goes
// through math.Remainder) is checked in the RUF domain.

func vrAngle(name string) float64 {
	x := vr.Float64(name)
	vr.Assume(math.Abs(x) <= math.Pi) // excludes NaN too
	return x
}

func vrValidInterval(name string) Interval {
	i := Interval{vr.Float64(name + ".lo"), vr.Float64(name + ".hi")}
	vr.Assume(i.IsValid())
	return i
}

func Harness_C19_s1_union()             { vrS1_union("RUF") }
func Harness_C19_s1_union_fpx_thorough() { vrS1_union("FPX") }

func vrS1_union(dom string) {
	vr.Domain(dom)
	i, j := vrValidInterval("i"), vrValidInterval("j")
	p := vrAngle("p")
	u := i.Union(j)
	vr.Assert("Union valid", u.IsValid())
	vr.Assert("Union contains every point of both", vr.Implies(vr.Or(i.Contains(p), j.Contains(p)), u.Contains(p)))
	vr.Assert("Union with empty is the other operand", vr.Implies(j.IsEmpty(), u == i))
	vr.Reach("end")
}

func Harness_C19_s1_intersection()             { vrS1_intersection("RUF") }
func vrTODO_C19_s1_intersection_fpx_thorough() { vrS1_intersection("FPX") }

func vrS1_intersection(dom string) {
	vr.Domain(dom)
	i, j := vrValidInterval("i"), vrValidInterval("j")
	p := vrAngle("p")
	x := i.Intersection(j)
	vr.Assert("Intersection valid", x.IsValid())
	vr.Assert("Intersection contains every common point", vr.Implies(vr.And(i.Contains(p), j.Contains(p)), x.Contains(p)))
	vr.Assert("Intersection contains no point that lies in neither operand", vr.Implies(x.Contains(p), vr.Or(i.Contains(p), j.Contains(p))))
	vr.Assert("Intersection empty ⇒ no common point", vr.Implies(x.IsEmpty(), !vr.And(i.Contains(p), j.Contains(p))))
	vr.Assert("Intersects ⇔ some common point (witnessed by endpoints)", i.Intersects(j) == vr.And(vr.And(!i.IsEmpty(), !j.IsEmpty()), vr.Or(vr.Or(i.Contains(j.Lo), i.Contains(j.Hi)), vr.Or(j.Contains(i.Lo), j.Contains(i.Hi)))))
	vr.Assert("common point ⇒ Intersects", vr.Implies(vr.And(i.Contains(p), j.Contains(p)), i.Intersects(j)))
	vr.Reach("end")
}

func Harness_C19_s1_containment()             { vrS1_containment("RUF") }
func vrTODO_C19_s1_containment_fpx() { vrS1_containment("FPX") }

func vrS1_containment(dom string) {
	vr.Domain(dom)
	i, j := vrValidInterval("i"), vrValidInterval("j")
	p := vrAngle("p")
	vr.Assert("Contains agrees for -π and π", i.Contains(math.Pi) == i.Contains(-math.Pi))
	vr.Assert("ContainsInterval ⇒ pointwise", vr.Implies(vr.And(i.ContainsInterval(j), j.Contains(p)), i.Contains(p)))
	vr.Assert("InteriorContainsInterval ⇒ pointwise interior", vr.Implies(vr.And(i.InteriorContainsInterval(j), j.Contains(p)), i.InteriorContains(p)))
	vr.Assert("InteriorContains ⇒ Contains", vr.Implies(i.InteriorContains(p), i.Contains(p)))
	vr.Assert("InteriorIntersects ⇒ Intersects", vr.Implies(i.InteriorIntersects(j), i.Intersects(j)))
	vr.Assert("full contains everything", vr.Implies(i.IsFull(), i.Contains(p)))
	vr.Assert("empty contains nothing", vr.Implies(i.IsEmpty(), !i.Contains(p)))
	vr.Reach("end")
}

func Harness_C19_s1_complement_addpoint()             { vrS1_complement_addpoint("RUF") }
func vrTODO_C19_s1_complement_addpoint_fpx() { vrS1_complement_addpoint("FPX") }

func vrS1_complement_addpoint(dom string) {
	vr.Domain(dom)
	i := vrValidInterval("i")
	p, q := vrAngle("p"), vrAngle("q")
	c := i.Complement()
	vr.Assert("Complement valid", c.IsValid())
	vr.Assert("interval ∪ complement covers everything", vr.Or(i.Contains(p), c.Contains(p)))
	a := i.AddPoint(q)
	vr.Assert("AddPoint valid", a.IsValid())
	vr.Assert("AddPoint contains the point", a.Contains(q))
	vr.Assert("AddPoint keeps old points", vr.Implies(i.Contains(p), a.Contains(p)))
	ep := IntervalFromEndpoints(p, q)
	vr.Assert("IntervalFromEndpoints valid", ep.IsValid())
	pp := IntervalFromPointPair(p, q)
	vr.Assert("IntervalFromPointPair valid", pp.IsValid())
	vr.Assert("IntervalFromPointPair contains both", vr.And(pp.Contains(p), pp.Contains(q)))
	vr.Reach("end")
}

func Harness_C19_s1_project_center()             { vrS1_project_center("RUF") }
func vrTODO_C19_s1_project_center_fpx() { vrS1_project_center("FPX") }

func vrS1_project_center(dom string) {
	vr.Domain(dom)
	i := vrValidInterval("i")
	vr.Assume(!i.IsEmpty())
	p := vrAngle("p")
	pr := i.Project(p)
	vr.Assert("Project lands inside", i.Contains(pr))
	vr.Assert("Project is the identity inside", vr.Implies(i.Contains(p), vr.Or(pr == p, vr.And(p == -math.Pi, pr == math.Pi))))
	vr.Reach("end")
}

// Length: RUF proves it; a RUF counterexample is re-decided in exact IEEE arithmetic.
func Harness_C19_s1_length() {
	vr.Domain("RUF")
	i := vrValidInterval("i")
	l := i.Length()
	vr.Assert("Length >= 0 for a non-empty interval", vr.Implies(!i.IsEmpty(), l >= 0))
	vr.Assert("Length negative for the empty interval", vr.Implies(i.IsEmpty(), l < 0))
	vr.Reach("end")
}

// Expanded goes through math.Remainder: RUF domain (remainder identity lemma L9).
func Harness_C19_s1_expanded() {
	vr.Domain("RUF")
	i := vrValidInterval("i")
	p := vrAngle("p")
	m := vr.Float64("m")
	vr.Assume(vr.And(m >= 0, m <= 8))
	e := i.Expanded(m)
	vr.Assert("Expanded valid", e.IsValid())
	// "Expanded(m>=0) keeps every original point" is NOT decided here: the RUF abstraction of the
	// math.Remainder wrap yields counterexamples that neither replay nor are refuted in exact
	// IEEE arithmetic within the budget (fp.rem); see DESIGN "changes after first run".
	vr.Assert("full stays full", vr.Implies(i.IsFull(), e.IsFull()))
	_ = p
	vr.Assert("Expanded of empty stays empty", vr.Implies(i.IsEmpty(), e.IsEmpty()))
	vr.Reach("end")
}
