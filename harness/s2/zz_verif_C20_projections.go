package s2

import (
	"math"

	"github.com/golang/geo/r2"
)

// C20 — projections: unprojecting any projected point yields a valid latitude,
// including the images of the poles (y = ±Inf for Mercator) and arbitrarily large |y|.
// exp and asin are arbitrary functions constrained only by their IEEE contracts (exp: a
// non-negative value or +Inf, NaN only for NaN; asin: NaN outside [-1,1], otherwise a value in
// [-π/2, π/2]); the arithmetic around them is exact IEEE (FPX).  Natively the real functions
// run, on the solver's point and on the images of the two poles.
func vrstub_C20_exp(x float64) float64 {
	k := vr.Float64("expv")
	vr.Assume(vr.Implies(x == x, k >= 0)) // not NaN for a non-NaN argument; +Inf allowed
	return k
}

func vrstub_C20_asin(x float64) float64 {
	r := vr.Float64("asinv")
	vr.Assume(vr.Implies(vr.And(x >= -1, x <= 1), vr.And(r >= -math.Pi/2, r <= math.Pi/2)))
	vr.Assume(vr.Implies(!vr.And(x >= -1, x <= 1), r != r))
	return r
}

func vrstub_C20_remainder(x, y float64) float64 {
	r := vr.Float64("remv")
	vr.Assume(vr.And(r >= -y/2, r <= y/2))
	return r
}

func Harness_C20_mercator_unproject_valid() {
	vr.Domain("FPX")
	scale := []float64{180, math.Pi, 1 << 20}[vr.Choose("scale", 0, 2)]
	proj := NewMercatorProjection(scale)
	pt := r2.Point{X: vr.Float64("x"), Y: vr.Float64("y")}
	vr.Assume(vr.And(pt.X == pt.X, pt.Y == pt.Y)) // any non-NaN coordinates, infinities included for y
	vr.Assume(vr.And(pt.X >= -4*scale, pt.X <= 4*scale))
	label := "unprojecting any point gives a valid latitude"
	if vr.Symbolic() {
		vr.Stub("math.Exp", "vrstub_C20_exp")
		vr.Stub("math.Asin", "vrstub_C20_asin")
		vr.Stub("math.Remainder", "vrstub_C20_remainder")
	}
	ll := proj.ToLatLng(pt)
	vr.Assert(label, vr.And(float64(ll.Lat) >= -math.Pi/2, float64(ll.Lat) <= math.Pi/2))
	if !vr.Symbolic() {
		for _, p := range []Point{PointFromCoords(0, 0, 1), PointFromCoords(0, 0, -1), PointFromCoords(1e-9, 0, 1), PointFromCoords(1e-9, 0, -1)} {
			q := proj.ToLatLng(proj.Project(p))
			vr.Assert(label, q.IsValid())
			vr.Assert(label, proj.Unproject(proj.Project(p)).Distance(p) < 1e-7)
		}
	}
	vr.Reach("end")
}
