package s2

import "github.com/golang/geo/s1"

// C07 — polygon relations are point-set relations: the real Polygon.Contains/Intersects
// (compareBoundary, containsBoundary, excludesBoundary, excludesNonCrossingShells,
// excludesNonCrossingComplementShells, anyLoopContains, anyLoopIntersects) over a
// one-dimensional family of regions: every loop is a circle about one fixed centre with
// radius 10k degrees (k a solver variable in 1..17) and one of two sides ("low": the points
// closer to the centre than the circle, "high": the points farther away).  A polygon is one
// to three nested/disjoint such loops in either sibling order.  Symbolically the loop-level
// relations are answered from the radii (stubs below: boundaries never touch because all
// radii are distinct); natively the same polygons are built from 16-gons with
// PolygonFromLoops and the real loop relations run, so counterexamples replay faithfully.
// Expected answers: membership of one representative point per annulus, from the radii alone.

type vrC07Ring struct {
	k    int
	high bool
}

type vrC07Entry struct {
	l *Loop
	r vrC07Ring
}

var vrC07Tab []vrC07Entry

func vrC07RingOf(l *Loop) vrC07Ring {
	for _, e := range vrC07Tab {
		if e.l == l {
			return e.r
		}
	}
	panic("unknown loop")
}

// the boundary circle of o lies inside region l
func vrC07HasBoundary(l, o vrC07Ring) bool {
	if l.high {
		return o.k > l.k
	}
	return o.k < l.k
}

func vrstub_C07_compareBoundary(l, o *Loop) int {
	if vrC07HasBoundary(vrC07RingOf(l), vrC07RingOf(o)) {
		return 1
	}
	return -1
}

func vrstub_C07_containsNonCrossingBoundary(l, o *Loop, reverse bool) bool {
	return vrC07HasBoundary(vrC07RingOf(l), vrC07RingOf(o))
}

func vrstub_C07_LoopContains(l, o *Loop) bool {
	a, b := vrC07RingOf(l), vrC07RingOf(o)
	return a.high == b.high && vrC07HasBoundary(a, b)
}

func vrstub_C07_LoopIntersects(l, o *Loop) bool {
	a, b := vrC07RingOf(l), vrC07RingOf(o)
	if a.high == b.high {
		return true
	}
	if a.high {
		return a.k < b.k
	}
	return b.k < a.k
}

// loop sides and depths of the ten polygon shapes (L = low side, H = high side; a chain of
// the same side is nested outermost first)
func vrC07Shape(cfg int) (high []bool, depth []int) {
	switch cfg {
	case 0:
		return []bool{false}, []int{0}
	case 1:
		return []bool{true}, []int{0}
	case 2:
		return []bool{false, false}, []int{0, 1}
	case 3:
		return []bool{true, true}, []int{0, 1}
	case 4:
		return []bool{false, true}, []int{0, 0}
	case 5:
		return []bool{true, false}, []int{0, 0}
	case 6:
		return []bool{false, false, true}, []int{0, 1, 0}
	case 7:
		return []bool{true, false, false}, []int{0, 0, 1}
	case 8:
		return []bool{false, true, true}, []int{0, 0, 1}
	default:
		return []bool{true, true, false}, []int{0, 1, 0}
	}
}

// vrC07Rings draws the radii of one polygon and assumes the shape's nesting: a low chain has
// decreasing radii, a high chain increasing radii, every low circle is inside every high one.
func vrC07Rings(name string, cfg int) ([]vrC07Ring, []int) {
	high, depth := vrC07Shape(cfg)
	rs := make([]vrC07Ring, len(high))
	for i := range rs {
		k := vr.Int(name + string(rune('0'+i)))
		vr.Assume(vr.And(k >= 1, k <= 17))
		rs[i] = vrC07Ring{k, high[i]}
	}
	for i := range rs {
		for j := range rs {
			if i < j && rs[i].high == rs[j].high {
				if rs[i].high {
					vr.Assume(rs[i].k < rs[j].k)
				} else {
					vr.Assume(rs[i].k > rs[j].k)
				}
			}
			if !rs[i].high && rs[j].high {
				vr.Assume(rs[i].k < rs[j].k)
			}
		}
	}
	return rs, depth
}

func vrC07Polygon(rs []vrC07Ring, depth []int) *Polygon {
	if vr.Symbolic() {
		p := &Polygon{bound: FullRect(), subregionBound: FullRect()}
		for i, r := range rs {
			l := &Loop{vertices: make([]Point, 3), originInside: r.high, depth: depth[i]}
			vrC07Tab = append(vrC07Tab, vrC07Entry{l, r})
			p.loops = append(p.loops, l)
			if depth[i] > 0 {
				p.hasHoles = true
			}
		}
		return p
	}
	c := PointFromCoords(0.3, 0.2, 1)
	var loops []*Loop
	for _, r := range rs {
		l := RegularLoop(c, s1.Angle(10*r.k)*s1.Degree, 16)
		if r.high {
			l.Invert()
		}
		loops = append(loops, l)
	}
	return PolygonFromLoops(loops)
}

// membership of the point just inside (below) or just outside (above) circle k
func vrC07Member(rs []vrC07Ring, k int, above bool) bool {
	in := false
	for _, r := range rs {
		var c bool
		if above {
			c = k < r.k // radius of the point is k+, inside the low side of r iff k < r.k
		} else {
			c = k <= r.k
		}
		if r.high {
			c = !c
		}
		in = in != c
	}
	return in
}

func Harness_C07_polygon_relations_concentric() {
	vr.MergeAll()
	ra, da := vrC07Rings("a", vr.Choose("shapeA", 0, 9))
	rb, db := vrC07Rings("b", vr.Choose("shapeB", 0, 9))
	for _, x := range ra {
		for _, y := range rb {
			vr.Assume(x.k != y.k)
		}
	}
	if vr.Symbolic() {
		vr.Stub("(*Loop).compareBoundary", "vrstub_C07_compareBoundary")
		vr.Stub("(*Loop).containsNonCrossingBoundary", "vrstub_C07_containsNonCrossingBoundary")
		vr.Stub("(*Loop).Contains", "vrstub_C07_LoopContains")
		vr.Stub("(*Loop).Intersects", "vrstub_C07_LoopIntersects")
	}
	a, b := vrC07Polygon(ra, da), vrC07Polygon(rb, db)
	wantAB, wantBA, wantX := true, true, false
	for _, set := range [][]vrC07Ring{ra, rb} {
		for _, r := range set {
			for _, above := range []bool{false, true} {
				ina, inb := vrC07Member(ra, r.k, above), vrC07Member(rb, r.k, above)
				wantAB = vr.And(wantAB, vr.Implies(inb, ina))
				wantBA = vr.And(wantBA, vr.Implies(ina, inb))
				wantX = vr.Or(wantX, vr.And(ina, inb))
			}
		}
	}
	vr.Assert("A.Contains(B) iff no point of B lies outside A", a.Contains(b) == wantAB)
	vr.Assert("B.Contains(A) iff no point of A lies outside B", b.Contains(a) == wantBA)
	vr.Assert("A.Intersects(B) iff they share a point", a.Intersects(b) == wantX)
	vr.Assert("Intersects is symmetric", b.Intersects(a) == wantX)
	vr.Reach("end")
}
