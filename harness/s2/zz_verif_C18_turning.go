package s2

import "github.com/golang/geo/s1"

// C18 — curvature consistency: TurningAngle is bit-identical for every cyclic rotation
// of the vertex order and exactly negated by inverting the loop.  TurnAngle is an
// uninterpreted oracle with the one fact that matters here, TurnAngle(c,b,a) =
// -TurnAngle(a,b,c) (which its code yields from PointCross antisymmetry and RobustSign).

func vrstub_TurnAngle(a, b, c Point) s1.Angle {
	return s1.Angle(vr.UFF9("turn", a.X, a.Y, a.Z, b.X, b.Y, b.Z, c.X, c.Y, c.Z))
}

func vrDistinctVertices(n int) []Point {
	vs := make([]Point, n)
	for i := range vs {
		vs[i] = Point{vrVec("v")}
		for j := 0; j < i; j++ {
			vr.Assume(vs[i] != vs[j])
		}
	}
	return vs
}

func vrC18N() int {
	return vr.Choose("n", 3, 4) // 5 vertices exceed the time budget (the rotation harness alone has 5 x 4 x 10 canonical cases)
}

func Harness_C18_turning_angle_rotation_invariant() {
	vr.Domain("RUF")
	vr.NoMerge() // which vertex is canonical stays a concrete index on each path
	vr.Stub("TurnAngle", "vrstub_TurnAngle")
	n := vrC18N()
	vs := vrDistinctVertices(n)
	k := vr.Choose("shift", 1, n-1)
	rot := make([]Point, n)
	for i := range rot {
		rot[i] = vs[(i+k)%n]
	}
	l1 := &Loop{vertices: vs}
	l2 := &Loop{vertices: rot}
	vr.Assert("TurningAngle identical for a cyclic rotation of the vertices", l1.TurningAngle() == l2.TurningAngle())
	vr.Reach("end")
}

func Harness_C18_turning_angle_inversion_negates() {
	vr.Domain("RUF")
	vr.NoMerge() // which vertex is canonical stays a concrete index on each path
	vr.Stub("TurnAngle", "vrstub_TurnAngle")
	vr.Stub("(*Loop).initBound", "vrstub_initBound")
	n := vrC18N()
	vs := vrDistinctVertices(n)
	if vr.Symbolic() {
		for i := 0; i < n; i++ {
			a, b, c := vs[(i+n-1)%n], vs[i], vs[(i+1)%n]
			vr.Assume(vrstub_TurnAngle(c, b, a) == -vrstub_TurnAngle(a, b, c))
		}
	}
	l := &Loop{vertices: append([]Point(nil), vs...), index: NewShapeIndex()}
	before := l.TurningAngle()
	l.Invert()
	after := l.TurningAngle()
	vr.Assert("TurningAngle exactly negated by Invert", after == -before)
	vr.Reach("end")
}

func Harness_C18_canonical_first_vertex() {
	vr.Domain("RUF")
	n := vrC18N()
	vs := vrDistinctVertices(n)
	l := &Loop{vertices: vs}
	first, dir := l.CanonicalFirstVertex()
	vr.Assert("direction is ±1", vr.Or(dir == 1, dir == -1))
	vr.Assert("first + n*dir stays inside [0, 2n-1]", vr.And(first+n*dir >= 0, vr.And(first+n*dir <= 2*n-1, vr.And(first >= 0, first <= 2*n-1))))
	ok := true
	for i := 0; i < n; i++ {
		ok = vr.And(ok, l.Vertex(first).Cmp(vs[i].Vector) <= 0)
	}
	vr.Assert("canonical first vertex is the lexicographic minimum", ok)
	vr.Reach("end")
}

// The scalar and the vector surface integrals (Area/curvature vs Centroid) visit the same
// oriented triangle sequence, origin changes included: with an arbitrary triangle function
// (uninterpreted symbolically, an asymmetric polynomial natively) the scalar integral
// equals the first component of the vector integral, term for term and in the same order.
func vrTri(a, b, c Point) float64 {
	if vr.Symbolic() {
		return vr.UFF9("tri", a.X, a.Y, a.Z, b.X, b.Y, b.Z, c.X, c.Y, c.Z)
	}
	return a.X + 2*b.Y + 3*c.Z + 5*a.Y*b.Z - 7*c.X*a.Z
}

// native witness loops (never executed symbolically): vertex orders that force the fan
// origin to move once and twice (vertices antipodal to vertex 0 and to the moved origin)
func vrC18MirrorWitnesses() {
	base := []Point{PointFromCoords(1, 0, 0), PointFromCoords(0, 1, 0), PointFromCoords(-1, 0, 0), PointFromCoords(0, 0, -1)}
	for rot := 0; rot < 4; rot++ {
		vs := make([]Point, 4)
		for i := range vs {
			vs[i] = base[(i+rot)%4]
		}
		l := &Loop{vertices: vs}
		s := l.surfaceIntegralFloat64(vrTri)
		p := l.surfaceIntegralPoint(func(a, b, c Point) Point {
			var r Point
			r.X = vrTri(a, b, c)
			return r
		})
		vr.Assert("scalar and vector surface integrals sum the same oriented triangles in the same order", s == p.X)
	}
}

func Harness_C18_surface_integrals_mirror() {
	vr.Domain("RUF")
	vr.NoMerge()
	if !vr.Symbolic() {
		vrC18MirrorWitnesses()
	}
	n := 4
	if vr.Thorough() {
		n = vr.Choose("n", 4, 5)
	}
	vs := vrDistinctVertices(n)
	l := &Loop{vertices: vs}
	s := l.surfaceIntegralFloat64(vrTri)
	p := l.surfaceIntegralPoint(func(a, b, c Point) Point {
		var r Point
		r.X = vrTri(a, b, c)
		return r
	})
	vr.Assert("scalar and vector surface integrals sum the same oriented triangles in the same order", s == p.X)
	vr.Reach("end")
}
