package s2

import "math"

// C07 — relations obey point-set semantics at a shared vertex.
// Angular reference model: directions around the shared vertex o are angles in
// [0, 2π); RobustSign(x, o, y) is defined from the angles (general position: the four
// directions are pairwise distinct and no two are opposite).  OrderedCCW and the wedge
// predicates are the real code on top of that.

// The four directions are the points (cos θ, sin θ, 0) around o = (0, 0, 1); θ is the solver
// variable.  Symbolically RobustSign is answered from the angles (the stub below); natively
// the real RobustSign runs on those points, so a counterexample replays faithfully.
var vrC07Pts [4]Point
var vrC07Th [4]float64

func vrTheta(p Point) float64 {
	r := vrC07Th[0]
	for i := 1; i < 4; i++ {
		r = vr.IteF64(p == vrC07Pts[i], vrC07Th[i], r)
	}
	return r
}

func vrMod2Pi(x float64) float64 { // for x in (-2π, 2π)
	return vr.IteF64(x < 0, vr.RAdd(x, 2*math.Pi), x)
}

// RobustSign(x, o, y) for directions x, y around o seen from outside the sphere: det(x,o,y) < 0
// (Clockwise) when y is less than π counter-clockwise of x (e.g. o = north pole, x = +X, y = +Y)
func vrstub_C07_RobustSign(x, o, y Point) Direction {
	d := vrMod2Pi(vr.RSub(vrTheta(y), vrTheta(x)))
	return Direction(vr.IteInt(x == y, 0, vr.IteInt(d < math.Pi, -1, 1)))
}

func vrDirections() (a0, a2, b0, b2, o Point) {
	o = PointFromCoords(0, 0, 1)
	for i := 0; i < 4; i++ {
		t := vr.Float64("theta")
		vr.Assume(vr.And(t >= 0, t < 2*math.Pi))
		vrC07Th[i] = t
		vrC07Pts[i] = Point{}
		vrC07Pts[i].X, vrC07Pts[i].Y = math.Cos(t), math.Sin(t)
		for j := 0; j < i; j++ {
			d := vrMod2Pi(vr.RSub(t, vrC07Th[j]))
			// general position: distinct, not opposite (with a margin so that the native points are too)
			vr.Assume(vr.And(vr.And(d > 0.001, d < 2*math.Pi-0.001), vr.Or(d < math.Pi-0.001, d > math.Pi+0.001)))
			vr.Assume(vrC07Pts[i] != vrC07Pts[j])
		}
	}
	return vrC07Pts[0], vrC07Pts[1], vrC07Pts[2], vrC07Pts[3], o
}

// B ⊆ A for wedges given as (x0, o, x2): interior on the left of x0 -> o -> x2, i.e. the
// directions swept counter-clockwise from x2 to x0.
func vrWedgeContainsSpec(a0, a2, b0, b2 Point) bool {
	w := vrMod2Pi(vr.RSub(vrTheta(a0), vrTheta(a2)))
	p2 := vrMod2Pi(vr.RSub(vrTheta(b2), vrTheta(a2)))
	p0 := vrMod2Pi(vr.RSub(vrTheta(b0), vrTheta(a2)))
	return vr.And(p2 <= p0, p0 <= w)
}

func Harness_C07_wedge_semantics() {
	vr.Domain("RUF")
	vr.Stub("RobustSign", "vrstub_C07_RobustSign")
	a0, a2, b0, b2, o := vrDirections()
	contains := WedgeContains(a0, o, a2, b0, b2)
	intersects := WedgeIntersects(a0, o, a2, b0, b2)
	vr.Assert("WedgeContains ⇔ angular interval B ⊆ A", contains == vrWedgeContainsSpec(a0, a2, b0, b2))
	// interiors meet ⇔ B is not inside the complement wedge (a2, o, a0)
	vr.Assert("WedgeIntersects ⇔ B ⊄ complement(A)", intersects == !vrWedgeContainsSpec(a2, a0, b0, b2))
	vr.Assert("WedgeIntersects symmetric", intersects == WedgeIntersects(b0, o, b2, a0, a2))
	vr.Assert("Intersects(A,B) ⇔ ¬Contains(Aᶜ,B)", intersects == !WedgeContains(a2, o, a0, b0, b2))
	vr.Assert("Contains(A,B) ⇔ Contains(Bᶜ,Aᶜ)", contains == WedgeContains(b2, o, b0, a2, a0))
	vr.Assert("Contains ⇒ Intersects", vr.Implies(contains, intersects))
	vr.Reach("end")
}

func Harness_C07_wedge_relation_values() {
	vr.Domain("RUF")
	vr.Stub("RobustSign", "vrstub_C07_RobustSign")
	a0, a2, b0, b2, o := vrDirections()
	rel := WedgeRelation(a0, o, a2, b0, b2)
	contains := vrWedgeContainsSpec(a0, a2, b0, b2)
	contained := vrWedgeContainsSpec(b0, b2, a0, a2)
	disjoint := vrWedgeContainsSpec(a2, a0, b0, b2)
	vr.Assert("WedgeProperlyContains ⇔ B ⊂ A", (rel == WedgeProperlyContains) == contains)
	vr.Assert("WedgeIsProperlyContained ⇔ A ⊂ B", (rel == WedgeIsProperlyContained) == vr.And(contained, !contains))
	vr.Assert("WedgeIsDisjoint ⇔ B ⊆ complement(A) and not the other cases", vr.Implies(rel == WedgeIsDisjoint, disjoint))
	vr.Assert("never WedgeEquals for distinct directions", rel != WedgeEquals)
	vr.Reach("end")
}

// wedgeContainsSemiwedge (used by the loop/polygon boundary relations): the rays
// immediately counter-clockwise (clockwise if reverse) of the edge (o, b2) lie inside
// wedge A — including the shared-edge (b2 == a2) and reversed-shared-edge (b2 == a0) cases.
func Harness_C07_semiwedge() {
	vr.Domain("RUF")
	vr.Stub("RobustSign", "vrstub_C07_RobustSign")
	a0, a2, b0, _, o := vrDirections()
	b2 := b0
	switch vr.Choose("b2is", 0, 2) {
	case 1:
		b2 = a0
	case 2:
		b2 = a2
	}
	reverse := vr.Bool("reverse")
	w := vrMod2Pi(vr.RSub(vrTheta(a0), vrTheta(a2)))
	pos := vrMod2Pi(vr.RSub(vrTheta(b2), vrTheta(a2)))
	// open set of rays just after pos (or just before it, if reverse) inside the open sweep (0, w)
	want := vr.IteBool(reverse, vr.And(pos > 0, pos <= w), vr.And(pos >= 0, pos < w))
	vr.Assert("wedgeContainsSemiwedge ⇔ the adjacent rays lie inside the wedge", wedgeContainsSemiwedge(a0, o, a2, b2, reverse) == want)
	vr.Reach("end")
}
