package s2intersect

import "github.com/golang/geo/s2"

// C11 (multi-way intersection finder) — cellUnionsToOverlaps against the leaf-interval
// model: a probe leaf lies in the reported overlap of unions {0,1} exactly when it is
// covered by both input unions (inputs need not be normalized: Find normalizes them).

func vrValidID(name string) s2.CellID {
	ci := s2.CellID(vr.Uint64(name))
	vr.Assume(ci.IsValid())
	return ci
}

func vrCoveredBy(cu s2.CellUnion, x s2.CellID) bool {
	c := false
	for _, id := range cu {
		c = vr.Or(c, vr.And(id.RangeMin() <= x, x <= id.RangeMax()))
	}
	return c
}

func Harness_C11_s2intersect_overlaps() {
	vr.Unwind(64)
	na := vr.Choose("na", 1, 2)
	a := make(s2.CellUnion, na)
	for i := range a {
		a[i] = vrValidID("a")
	}
	b := s2.CellUnion{vrValidID("b")}
	x := vrValidID("x")
	vr.Assume(x.IsLeaf())
	want := vr.And(vrCoveredBy(a, x), vrCoveredBy(b, x))
	ov := cellUnionsToOverlaps([]s2.CellUnion{append(s2.CellUnion(nil), a...), append(s2.CellUnion(nil), b...)})
	got := false
	for _, o := range ov {
		vr.Assert("overlap lists both unions", len(o.indices) == 2)
		vr.Assert("overlap interval is well formed", o.start <= o.end)
		got = vr.Or(got, vr.And(o.start <= x, x <= o.end))
	}
	vr.Assert("probe leaf in a reported overlap ⇔ covered by both unions", got == want)
	vr.Reach("end")
}
