package s2

// C01 — cell ids form a consistent, invertible quadtree (BV obligations).

func vrValidCellID(name string) CellID {
	ci := CellID(vr.Uint64(name))
	vr.Assume(ci.IsValid())
	return ci
}

// Harness_C01_levels: level/lsb/parent algebra for every valid id.
func Harness_C01_levels() {
	ci := vrValidCellID("ci")
	lvl := ci.Level()
	vr.Assert("level-range", vr.And(lvl >= 0, lvl <= MaxLevel))
	vr.Assert("lsb-for-level", ci.lsb() == lsbForLevel(lvl))
	vr.Assert("isleaf-iff-30", ci.IsLeaf() == (lvl == MaxLevel))
	vr.Assert("parent-at-own-level", ci.Parent(lvl) == ci)
	l := vr.Int("l")
	vr.Assume(vr.And(l >= 0, l <= lvl))
	p := ci.Parent(l)
	vr.Assert("parent-valid", p.IsValid())
	vr.Assert("parent-level", p.Level() == l)
	vr.Assert("parent-contains", p.Contains(ci))
	vr.Assert("parent-face", p.Face() == ci.Face())
	vr.Reach("end")
}

// Harness_C01_immediate_parent
func Harness_C01_immediate_parent() {
	ci := vrValidCellID("ci")
	vr.Assume(!ci.isFace())
	vr.Assert("immediateParent==Parent(level-1)", ci.immediateParent() == ci.Parent(ci.Level()-1))
	vr.Reach("end")
}
