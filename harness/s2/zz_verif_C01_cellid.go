package s2

// C01 — cell ids form a consistent, invertible quadtree (BV obligations).

func vrValidCellID(name string) CellID {
	ci := CellID(vr.Uint64(name))
	vr.Assume(ci.IsValid())
	return ci
}

// Harness_C01_levels: level/lsb/parent algebra for every valid id.
func Harness_C01_levels() {
	ci := vrValidCellID("ci")
	lvl := ci.Level()
	vr.Assert("level-range", vr.And(lvl >= 0, lvl <= MaxLevel))
	vr.Assert("lsb-for-level", ci.lsb() == lsbForLevel(lvl))
	vr.Assert("isleaf-iff-30", ci.IsLeaf() == (lvl == MaxLevel))
	vr.Assert("parent-at-own-level", ci.Parent(lvl) == ci)
	l := vr.Int("l")
	vr.Assume(vr.And(l >= 0, l <= lvl))
	p := ci.Parent(l)
	vr.Assert("parent-valid", p.IsValid())
	vr.Assert("parent-level", p.Level() == l)
	vr.Assert("parent-contains", p.Contains(ci))
	vr.Assert("parent-face", p.Face() == ci.Face())
	vr.Reach("end")
}

// Harness_C01_immediate_parent
func Harness_C01_immediate_parent() {
	ci := vrValidCellID("ci")
	vr.Assume(!ci.isFace())
	vr.Assert("immediateParent==Parent(level-1)", ci.immediateParent() == ci.Parent(ci.Level()-1))
	vr.Reach("end")
}

// Children partition the parent's leaf range in curve order.
func Harness_C01_children() {
	ci := vrValidCellID("ci")
	vr.Assume(!ci.IsLeaf())
	ch := ci.Children()
	lvl := ci.Level()
	ok := true
	for k := 0; k < 4; k++ {
		ok = vr.And(ok, vr.And(ch[k].IsValid(), vr.And(ch[k].Level() == lvl+1, ch[k].immediateParent() == ci)))
		ok = vr.And(ok, ch[k].ChildPosition(lvl+1) == k)
	}
	vr.Assert("children valid, one level down, parent is ci, ChildPosition = k", ok)
	vr.Assert("first child starts the parent's range", ch[0].RangeMin() == ci.RangeMin())
	vr.Assert("last child ends the parent's range", ch[3].RangeMax() == ci.RangeMax())
	vr.Assert("children are contiguous", vr.And(ch[0].RangeMax()+2 == ch[1].RangeMin(), vr.And(ch[1].RangeMax()+2 == ch[2].RangeMin(), ch[2].RangeMax()+2 == ch[3].RangeMin())))
	vr.Assert("ChildBegin/Next/ChildEnd enumerate the children", vr.And(vr.And(ci.ChildBegin() == ch[0], ch[0].Next() == ch[1]), vr.And(vr.And(ch[1].Next() == ch[2], ch[2].Next() == ch[3]), ch[3].Next() == ci.ChildEnd())))
	l := vr.Int("l")
	vr.Assume(vr.And(l >= lvl, l <= MaxLevel))
	b, e := ci.ChildBeginAtLevel(l), ci.ChildEndAtLevel(l)
	vr.Assert("ChildBeginAtLevel is the first descendant at that level", vr.And(b.Level() == l, b.RangeMin() == ci.RangeMin()))
	vr.Assert("ChildEndAtLevel is one past the last descendant", vr.And(e.Prev().RangeMax() == ci.RangeMax(), e.Prev().Level() == l))
	vr.Reach("end")
}

// Containment/intersection are range relations; ranges nest or are disjoint.
func Harness_C01_ranges() {
	a, b := vrValidCellID("a"), vrValidCellID("b")
	inc := vr.And(a.RangeMin() <= b.RangeMin(), b.RangeMax() <= a.RangeMax())
	ovl := vr.And(a.RangeMin() <= b.RangeMax(), b.RangeMin() <= a.RangeMax())
	vr.Assert("Contains ⇔ range inclusion", a.Contains(b) == inc)
	vr.Assert("Intersects ⇔ range overlap", a.Intersects(b) == ovl)
	vr.Assert("laminar: overlapping cells nest", vr.Implies(ovl, vr.Or(a.Contains(b), b.Contains(a))))
	vr.Assert("contains ⇒ not deeper", vr.Implies(a.Contains(b), a.Level() <= b.Level()))
	vr.Assert("Next/Prev inverse", a.Next().Prev() == a)
	lv, ok := a.CommonAncestorLevel(b)
	vr.Assert("CommonAncestorLevel: same face ⇔ ok", ok == (a.Face() == b.Face()))
	if ok {
		vr.Assert("common ancestor contains both", vr.And(lv <= a.Level(), vr.And(lv <= b.Level(), a.Parent(lv) == b.Parent(lv))))
		vr.Assert("common ancestor is the deepest one", vr.Or(lv == a.Level(), vr.Or(lv == b.Level(), a.Parent(lv+1) != b.Parent(lv+1))))
	}
	vr.Reach("end")
}

func Harness_C01_facepos_wrap() {
	ci := vrValidCellID("ci")
	vr.Assert("FromFacePosLevel(Face,Pos,Level) == ci", CellIDFromFacePosLevel(ci.Face(), ci.Pos(), ci.Level()) == ci)
	f := vr.Int("f")
	vr.Assume(vr.And(f >= 0, f < 6))
	fc := CellIDFromFace(f)
	vr.Assert("CellIDFromFace is the level-0 cell of that face", vr.And(fc.IsValid(), vr.And(fc.Level() == 0, fc.Face() == f)))
	n, p := ci.NextWrap(), ci.PrevWrap()
	vr.Assert("NextWrap/PrevWrap stay valid at the same level", vr.And(vr.And(n.IsValid(), p.IsValid()), vr.And(n.Level() == ci.Level(), p.Level() == ci.Level())))
	vr.Assert("NextWrap/PrevWrap inverse", vr.And(n.PrevWrap() == ci, p.NextWrap() == ci))
	k := vr.Int64("k")
	vr.Assume(vr.And(k >= -3, k <= 3))
	want := ci
	for s := int64(0); s < 3; s++ {
		want = CellID(vr.IteU64(k > s, uint64(want.NextWrap()), uint64(want)))
	}
	for s := int64(0); s < 3; s++ {
		want = CellID(vr.IteU64(-k > s, uint64(want.PrevWrap()), uint64(want)))
	}
	vr.Assert("AdvanceWrap(k) == k applications of NextWrap/PrevWrap (|k|<=3)", ci.AdvanceWrap(k) == want)
	vr.Reach("end")
}

// Hilbert tables: leaf id -> (face,i,j) -> leaf id is the identity, and back.
func Harness_C01_hilbert_roundtrip() {
	ci := vrLeaf("ci")
	f, i, j, _ := ci.faceIJOrientation()
	vr.Assert("ij in range", vr.And(vr.And(i >= 0, i < MaxSize), vr.And(j >= 0, j < MaxSize)))
	vr.Assert("cellIDFromFaceIJ(faceIJOrientation(ci)) == ci", cellIDFromFaceIJ(f, i, j) == ci)
	vr.Reach("end")
}

func Harness_C01_hilbert_roundtrip_ij() {
	f := vr.Int("f")
	i, j := vr.Int("i"), vr.Int("j")
	vr.Assume(vr.And(f >= 0, f < 6))
	vr.Assume(vr.And(vr.And(i >= 0, i < MaxSize), vr.And(j >= 0, j < MaxSize)))
	ci := cellIDFromFaceIJ(f, i, j)
	f2, i2, j2, _ := ci.faceIJOrientation()
	vr.Assert("leaf and valid", vr.And(ci.IsValid(), ci.IsLeaf()))
	vr.Assert("faceIJOrientation(cellIDFromFaceIJ(f,i,j)) == (f,i,j)", vr.And(f2 == f, vr.And(i2 == i, j2 == j)))
	vr.Reach("end")
}

// Consecutive leaves on a face share an edge: (i,j) differ by exactly 1 in one coordinate.
func Harness_C01_curve_continuity() {
	ci := vrLeaf("ci")
	n := ci.Next()
	vr.Assume(vr.And(n.IsValid(), n.Face() == ci.Face()))
	_, i, j, _ := ci.faceIJOrientation()
	_, i2, j2, _ := n.faceIJOrientation()
	di, dj := i2-i, j2-j
	vr.Assert("consecutive leaves are edge-adjacent", vr.Or(vr.And(dj == 0, vr.Or(di == 1, di == -1)), vr.And(di == 0, vr.Or(dj == 1, dj == -1))))
	vr.Reach("end")
}

// AdvanceWrap / Advance for an arbitrary step count: the result is a valid cell of the
// same level, and its position along the curve is the start position plus the steps
// modulo the number of cells at that level (levels: concrete per path).
func Harness_C01_advance_wrap_any_steps() {
	var lvl int
	if vr.Thorough() {
		lvl = vr.Choose("level", 0, MaxLevel)
	} else {
		lvl = [...]int{0, 1, 2, 15, 29, 30}[vr.Choose("leveli", 0, 5)]
	}
	ci := vrValidCellID("ci")
	vr.Assume(ci.Level() == lvl)
	k := vr.Int64("k")
	r := ci.AdvanceWrap(k)
	vr.Assert("AdvanceWrap result is valid", r.IsValid())
	vr.Assert("AdvanceWrap keeps the level", r.Level() == lvl)
	shift := uint(2*(MaxLevel-lvl) + 1)
	n := uint64(6) << uint(2*lvl) // cells at this level
	p0, p1 := uint64(ci)>>shift, uint64(r)>>shift
	// (p1 - p0 - k) is a multiple of n, computed modulo 2^64 and then modulo n (n divides 2^64 only
	// when it is a power of two; use the residues of both sides instead)
	kk := uint64(k % int64(n))
	if k%int64(n) < 0 {
		kk = uint64(k%int64(n) + int64(n))
	}
	vr.Assert("AdvanceWrap position = start + steps (mod cells at level)", p1 == (p0+kk)%n)
	a := ci.Advance(k)
	vr.Assert("Advance stays between Begin and End of the level", vr.And(uint64(a)>>shift <= n, a.Level() == lvl || uint64(a)>>shift == n))
	vr.Reach("end")
}
