package s2

// Self-test harness: a deliberately false claim must come back sat and replay-confirmed.
func Harness_SELF_false_claim() {
	ci := vrValidCellID("ci")
	vr.Assume(!ci.IsLeaf())
	vr.Assert("children-are-two-levels-down(false)", ci.Children()[1].Level() == ci.Level()+2)
	vr.Reach("end")
}

func Harness_SELF_panic() {
	i := vr.Int("i")
	var a [4]int
	vr.Assume(i >= 0)
	a[i%5] = 1
	vr.Reach("end")
}
