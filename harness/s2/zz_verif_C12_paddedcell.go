package s2

import (
	"github.com/golang/geo/r1"
	"github.com/golang/geo/r2"
)

// C12 — PaddedCell.ShrinkToFit (used by the index to skip subdivision levels) returns the
// smallest descendant-or-self of the cell that contains every descendant whose bound
// intersects the rectangle.  The float conversions are replaced by exact ones on an integer
// grid: coordinates are (si,ti) values, stToUV/uvToST are the identity, siTiToST(si) = si,
// stToIJ maps each rectangle coordinate to floor(si/2) clamped, and the padding is zero
// (ExpandedByMargin is the identity).  Rectangle corners are odd (si,ti) values (leaf-cell
// centre lines), so no corner touches a cell boundary and closed/open intersection
// coincide.  Cell ids are abstracted to a bit-interleaved (Morton) numbering: all that
// ShrinkToFit relies on is that Parent(L) of the leaf (i,j) is determined by the top L bits
// of i and j (C01 establishes this for the real Hilbert numbering).  Natively the real
// conversions and the real numbering run on the same rectangle mapped to (u,v), so
// counterexamples replay.
var vrC12RectF [4]float64
var vrC12RectK [4]int

func vrstub_C12_identity(x float64) float64          { return x }
func vrstub_C12_siTiToST(si uint32) float64          { return float64(si) }
func vrstub_C12_expand(r r2.Rect, m float64) r2.Rect { return r }
func vrstub_C12_stToIJ(s float64) int {
	for n, f := range vrC12RectF {
		if s == f {
			return clampInt(vrC12RectK[n]>>1, 0, MaxSize-1)
		}
	}
	panic("stToIJ of an unexpected value")
}
func vrstub_C12_morton(f, i, j int) CellID {
	var v uint64
	for b := uint(0); b < 30; b++ {
		v |= (uint64(i)>>b&1)<<(2*b+1) | (uint64(j)>>b&1)<<(2*b)
	}
	return CellID(uint64(f)<<61 | v<<1 | 1)
}

func vrC12Coord(si int) float64 {
	if vr.Symbolic() {
		return float64(si)
	}
	return stToUV(siTiToST(uint32(si)))
}

func vrC12OddSiTi(name string) int {
	return int(vr.Uint32(name)&(2*MaxSize-1) | 1)
}

func vrC12ShrinkLevel() int {
	if vr.Thorough() {
		return []int{1, 2, 15, 29, 30}[vr.Choose("level", 0, 4)]
	}
	return []int{1, 15, 30}[vr.Choose("level", 0, 2)]
}

func Harness_C12_shrink_to_fit() {
	vr.Domain("FPX")
	if vr.Symbolic() {
		vr.Stub("stToUV", "vrstub_C12_identity")
		vr.Stub("uvToST", "vrstub_C12_identity")
		vr.Stub("siTiToST", "vrstub_C12_siTiToST")
		vr.Stub("stToIJ", "vrstub_C12_stToIJ")
		vr.Stub("(github.com/golang/geo/r2.Rect).ExpandedByMargin", "vrstub_C12_expand")
		vr.Stub("cellIDFromFaceIJ", "vrstub_C12_morton")
	}
	level := vrC12ShrinkLevel()
	size := sizeIJ(level)
	face := int(vr.Uint8("face"))
	vr.Assume(face < 6)
	i0 := int(vr.Uint32("i")&(MaxSize-1)) & -size
	j0 := int(vr.Uint32("j")&(MaxSize-1)) & -size
	id := cellIDFromFaceIJ(face, i0, j0).Parent(level)
	var p *PaddedCell
	if vr.Symbolic() {
		p = &PaddedCell{id: id, level: level, iLo: i0, jLo: j0}
	} else {
		p = PaddedCellFromCellID(id, 0)
	}
	xlo, xhi, ylo, yhi := vrC12OddSiTi("xlo"), vrC12OddSiTi("xhi"), vrC12OddSiTi("ylo"), vrC12OddSiTi("yhi")
	vr.Assume(vr.And(xlo <= xhi, ylo <= yhi))
	rect := r2.Rect{X: r1.Interval{Lo: vrC12Coord(xlo), Hi: vrC12Coord(xhi)}, Y: r1.Interval{Lo: vrC12Coord(ylo), Hi: vrC12Coord(yhi)}}
	vrC12RectF = [4]float64{rect.X.Lo, rect.X.Hi, rect.Y.Lo, rect.Y.Hi}
	vrC12RectK = [4]int{xlo, xhi, ylo, yhi}
	// the leaf cells of p met by rect
	iMin, iMax, jMin, jMax := xlo>>1, xhi>>1, ylo>>1, yhi>>1
	if iMin < i0 {
		iMin = i0
	}
	if iMax > i0+size-1 {
		iMax = i0 + size - 1
	}
	if jMin < j0 {
		jMin = j0
	}
	if jMax > j0+size-1 {
		jMax = j0 + size - 1
	}
	vr.Assume(vr.And(iMin <= iMax, jMin <= jMax)) // documented precondition: rect intersects the cell
	got := p.ShrinkToFit(rect)
	lo, hi := cellIDFromFaceIJ(face, iMin, jMin), cellIDFromFaceIJ(face, iMax, jMax)
	vr.Assert("the result is the cell or one of its descendants", id.Contains(got))
	vr.Assert("the result contains every leaf of the cell met by the rectangle", vr.And(got.Contains(lo), got.Contains(hi)))
	if !got.IsLeaf() {
		next := got.Level() + 1
		vr.Assert("no child of the result contains them all (the result is the smallest such cell)", lo.Parent(next) != hi.Parent(next))
	}
	vr.Reach("end")
}
