package s2

// C03 — edge-crossing tests are exact, symmetric and independent of traversal state.
// The exact orientation predicate is an uninterpreted oracle R constrained by what C02
// establishes (values in {-1,0,1}, zero iff two points identical, rotation invariant,
// negated by a swap); the fast paths answer 0 or R (their contract).

func vrR(a, b, c Point) int {
	if vr.Symbolic() {
		return vr.UF9("R", a.X, a.Y, a.Z, b.X, b.Y, b.Z, c.X, c.Y, c.Z)
	}
	return int(RobustSign(a, b, c))
}

// ground instances of the C02 guarantees for one unordered triple
func vrRAxioms(p, q, r Point) {
	if !vr.Symbolic() {
		return
	}
	s := vrR(p, q, r)
	vr.Assume(vr.And(s >= -1, s <= 1))
	vr.Assume((s == 0) == vr.Or(p == q, vr.Or(q == r, p == r)))
	vr.Assume(vr.And(vrR(q, r, p) == s, vrR(r, p, q) == s))
	vr.Assume(vr.And(vrR(q, p, r) == -s, vr.And(vrR(p, r, q) == -s, vrR(r, q, p) == -s)))
}

func vrstub_C03_triage(a, b, c Point) Direction {
	t := vr.Int("triage")
	vr.Assume(vr.Or(t == 0, t == vrR(a, b, c)))
	return Direction(t)
}
func vrstub_C03_exact(a, b, c Point) Direction { return Direction(vrR(a, b, c)) }

func vrC03Stubs() {
	vr.Stub("triageSign", "vrstub_C03_triage")
	vr.Stub("expensiveSign", "vrstub_C03_exact")
	vr.Stub("RobustSign", "vrstub_C03_exact")
}

// the stateless specification: four-orientation criterion
func vrCrossSpec(a, b, c, d Point) Crossing {
	if a == c || a == d || b == c || b == d {
		return MaybeCross
	}
	if a == b || c == d {
		return DoNotCross
	}
	acb := -vrR(a, b, c)
	if vrR(a, b, d) != acb {
		return DoNotCross
	}
	if -vrR(c, d, b) != acb {
		return DoNotCross
	}
	if vrR(c, d, a) != acb {
		return DoNotCross
	}
	return Cross
}

func vrFourPoints() (a, b, c, d Point) {
	a, b, c, d = Point{vrVec("a")}, Point{vrVec("b")}, Point{vrVec("c")}, Point{vrVec("d")}
	vrRAxioms(a, b, c)
	vrRAxioms(a, b, d)
	vrRAxioms(a, c, d)
	vrRAxioms(b, c, d)
	return
}

// One inductive step of the crosser from an arbitrary state satisfying the
// representation invariant acb ∈ {0, -R(a,b,c)}: the answer is the stateless
// specification and the invariant holds again for (d, acb').
func Harness_C03_crosser_step() {
	vr.Domain("RUF")
	vrC03Stubs()
	a, b, c, d := vrFourPoints()
	e := NewEdgeCrosser(a, b)
	e.c = c
	acb := vr.Int("acb")
	vr.Assume(vr.Or(acb == 0, acb == -vrR(a, b, c)))
	e.acb = Direction(acb)
	want := vrCrossSpec(a, b, c, d)
	// the tangent early exit is assumed sound (its error constant is outside the claim)
	maxError := (1.5 + 1/1.7320508075688772) * dblEpsilon
	tangent := vr.Or(vr.And(c.Dot(e.aTangent.Vector) > maxError, d.Dot(e.aTangent.Vector) > maxError), vr.And(c.Dot(e.bTangent.Vector) > maxError, d.Dot(e.bTangent.Vector) > maxError))
	vr.Assume(vr.Implies(tangent, want == DoNotCross))
	got := e.ChainCrossingSign(d)
	vr.Assert("ChainCrossingSign == stateless four-orientation criterion", got == want)
	vr.Assert("state: previous vertex updated", e.c == d)
	vr.Assert("state: invariant re-established", vr.Or(e.acb == 0, int(e.acb) == -vrR(a, b, d)))
	vr.Reach("end")
}

func Harness_C03_restart_establishes_invariant() {
	vr.Domain("RUF")
	vrC03Stubs()
	a, b, c, _ := vrFourPoints()
	e := NewEdgeCrosser(a, b)
	e.RestartAt(c)
	vr.Assert("RestartAt: c stored", e.c == c)
	vr.Assert("RestartAt: acb ∈ {0, -R(a,b,c)}", vr.Or(e.acb == 0, int(e.acb) == -vrR(a, b, c)))
	vr.Reach("end")
}

// Symmetries of the stateless test (and, by the step, of the crosser).
func Harness_C03_symmetry() {
	vr.Domain("RUF")
	a, b, c, d := vrFourPoints()
	s := vrCrossSpec(a, b, c, d)
	vr.Assert("reverse first edge", vrCrossSpec(b, a, c, d) == s)
	vr.Assert("reverse second edge", vrCrossSpec(a, b, d, c) == s)
	vr.Assert("swap edges", vrCrossSpec(c, d, a, b) == s)
	shared := vr.Or(vr.Or(a == c, a == d), vr.Or(b == c, b == d))
	vr.Assert("MaybeCross ⇔ shared endpoint", (s == MaybeCross) == shared)
	vr.Reach("end")
}

// VertexCrossing as an oracle of its four arguments (its own properties are not decided here);
// natively the real function runs.
func vrstub_C03_VertexCrossing(a, b, c, d Point) bool {
	return vr.UF9("VC", c.X, c.Y, c.Z, d.X, d.Y, d.Z, a.X+b.X, a.Y+b.Y, a.Z+b.Z) != 0
}

// EdgeOrVertexChainCrossing = Cross ∨ (MaybeCross ∧ VertexCrossing with the pre-call c).
func Harness_C03_edge_or_vertex() {
	vr.Domain("RUF")
	vrC03Stubs()
	vr.Stub("VertexCrossing", "vrstub_C03_VertexCrossing")
	a, b, c, d := vrFourPoints()
	e := NewEdgeCrosser(a, b)
	e.RestartAt(c)
	maxError := (1.5 + 1/1.7320508075688772) * dblEpsilon
	want := vrCrossSpec(a, b, c, d)
	tangent := vr.Or(vr.And(c.Dot(e.aTangent.Vector) > maxError, d.Dot(e.aTangent.Vector) > maxError), vr.And(c.Dot(e.bTangent.Vector) > maxError, d.Dot(e.bTangent.Vector) > maxError))
	vr.Assume(vr.Implies(tangent, want == DoNotCross))
	got := e.EdgeOrVertexChainCrossing(d)
	if want == Cross {
		vr.Assert("Cross ⇒ true", got)
	} else if want == DoNotCross {
		vr.Assert("DoNotCross ⇒ false", !got)
	} else {
		vr.Assert("MaybeCross ⇒ VertexCrossing(a,b,c,d) with the previous c", got == VertexCrossing(a, b, c, d))
	}
	vr.Reach("end")
}

// The stateless convenience function gives the same answer as the specification and hence
// as the incremental crosser: Cross ⇒ true, DoNotCross ⇒ false, and at a shared vertex the
// vertex rule applied to the edges in the order (AB, CD).
func Harness_C03_stateless_edge_or_vertex() {
	vr.Domain("RUF")
	vrC03Stubs()
	vr.Stub("VertexCrossing", "vrstub_C03_VertexCrossing")
	a, b, c, d := vrFourPoints()
	e := NewEdgeCrosser(a, b)
	e.RestartAt(c)
	maxError := (1.5 + 1/1.7320508075688772) * dblEpsilon
	want := vrCrossSpec(a, b, c, d)
	tangent := vr.Or(vr.And(c.Dot(e.aTangent.Vector) > maxError, d.Dot(e.aTangent.Vector) > maxError), vr.And(c.Dot(e.bTangent.Vector) > maxError, d.Dot(e.bTangent.Vector) > maxError))
	vr.Assume(vr.Implies(tangent, want == DoNotCross))
	got := EdgeOrVertexCrossing(a, b, c, d)
	if want == Cross {
		vr.Assert("stateless: Cross ⇒ true", got)
	} else if want == DoNotCross {
		vr.Assert("stateless: DoNotCross ⇒ false", !got)
	} else {
		vr.Assert("stateless: MaybeCross ⇒ VertexCrossing(a,b,c,d)", got == VertexCrossing(a, b, c, d))
		vr.Assert("stateless == incremental crosser at a shared vertex", got == e.EdgeOrVertexChainCrossing(d))
	}
	vr.Reach("end")
}
