package s2

import (
	"math"

	"github.com/golang/geo/s1"
)

// C17 — edge distance primitives: threshold forms agree with the computed distance,
// endpoint zeros, interpolation endpoints (RUF: reals + rounded operations as
// uninterpreted functions with IEEE lemma instances).

func vrBoundedPoint(name string) Point {
	p := Point{vrVec(name)}
	vr.Assume(vr.And(vr.And(math.Abs(p.X) <= 1, math.Abs(p.Y) <= 1), math.Abs(p.Z) <= 1))
	return p
}

func Harness_C17_threshold_consistent() {
	vr.Domain("RUF")
	x, a, b := vrBoundedPoint("x"), vrBoundedPoint("a"), vrBoundedPoint("b")
	m := s1.ChordAngle(vr.Float64("limit"))
	vr.Assume(vr.And(m >= 0, m <= 4))
	d, ok := UpdateMinDistance(x, a, b, m)
	vr.Assert("update ⇒ strictly below the limit", vr.Implies(ok, d < m))
	vr.Assert("no update ⇒ limit returned unchanged", vr.Implies(!ok, d == m))
	vr.Assert("IsDistanceLess ⇔ the update flag", IsDistanceLess(x, a, b, m) == ok)
	di, oki := UpdateMinInteriorDistance(x, a, b, m)
	vr.Assert("interior: update ⇒ below the limit", vr.Implies(oki, di < m))
	vr.Assert("interior: no update ⇒ limit unchanged", vr.Implies(!oki, di == m))
	vr.Assert("IsInteriorDistanceLess ⇔ the interior update flag", IsInteriorDistanceLess(x, a, b, m) == oki)
	vr.Assert("an interior update is also a (not larger) total update", vr.Implies(oki, vr.And(ok, d <= di)))
	vr.Reach("end")
}

func vrTODO_C17_update_value() {
	vr.Domain("RUF")
	x, a, b := vrBoundedPoint("x"), vrBoundedPoint("a"), vrBoundedPoint("b")
	m := s1.ChordAngle(vr.Float64("limit"))
	vr.Assume(vr.And(m >= 0, m <= 4))
	d, ok := UpdateMinDistance(x, a, b, m)
	D, _ := updateMinDistance(x, a, b, m, true)
	vr.Assert("update ⇒ value is the computed distance", vr.Implies(ok, d == D))
	vr.Reach("end")
}

func Harness_C17_endpoint_zero() {
	vr.Domain("RUF")
	a, b := vrBoundedPoint("a"), vrBoundedPoint("b")
	d, ok := UpdateMinDistance(a, a, b, s1.StraightChordAngle)
	vr.Assert("distance from an endpoint (first) is exactly zero", vr.And(ok, d == 0))
	d2, ok2 := UpdateMinDistance(b, a, b, s1.StraightChordAngle)
	vr.Assert("distance from an endpoint (second) is exactly zero", vr.And(ok2, d2 == 0))
	vr.Reach("end")
}

func Harness_C17_interpolate_ends() {
	vr.Domain("RUF")
	a, b := vrBoundedPoint("a"), vrBoundedPoint("b")
	vr.Assert("Interpolate(0) is a", Interpolate(0, a, b) == a)
	vr.Assert("Interpolate(1) is b", Interpolate(1, a, b) == b)
	vr.Reach("end")
}

func Harness_C17_max_dual() {
	vr.Domain("RUF")
	x, a, b := vrBoundedPoint("x"), vrBoundedPoint("a"), vrBoundedPoint("b")
	m := s1.ChordAngle(vr.Float64("limit"))
	vr.Assume(vr.And(m >= 0, m <= 4))
	d, ok := UpdateMaxDistance(x, a, b, m)
	vr.Assert("max: update ⇒ strictly above the limit", vr.Implies(ok, d > m))
	vr.Assert("max: no update ⇒ limit unchanged", vr.Implies(!ok, d == m))
	vr.Reach("end")
}
