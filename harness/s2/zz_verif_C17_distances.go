package s2

import (
	"math"

	"github.com/golang/geo/r3"
	"github.com/golang/geo/s1"
)

// C17 — edge distance primitives: threshold forms agree with the computed distance,
// endpoint zeros, interpolation endpoints (RUF: reals + rounded operations as
// uninterpreted functions with IEEE lemma instances).

func vrBoundedPoint(name string) Point {
	p := Point{vrVec(name)}
	vr.Assume(vr.And(vr.And(math.Abs(p.X) <= 1, math.Abs(p.Y) <= 1), math.Abs(p.Z) <= 1))
	return p
}

func Harness_C17_threshold_consistent() {
	vr.Domain("RUF")
	x, a, b := vrBoundedPoint("x"), vrBoundedPoint("a"), vrBoundedPoint("b")
	m := s1.ChordAngle(vr.Float64("limit"))
	vr.Assume(vr.And(m >= 0, m <= 4))
	d, ok := UpdateMinDistance(x, a, b, m)
	vr.Assert("update ⇒ strictly below the limit", vr.Implies(ok, d < m))
	vr.Assert("no update ⇒ limit returned unchanged", vr.Implies(!ok, d == m))
	vr.Assert("IsDistanceLess ⇔ the update flag", IsDistanceLess(x, a, b, m) == ok)
	di, oki := UpdateMinInteriorDistance(x, a, b, m)
	vr.Assert("interior: update ⇒ below the limit", vr.Implies(oki, di < m))
	vr.Assert("interior: no update ⇒ limit unchanged", vr.Implies(!oki, di == m))
	vr.Assert("IsInteriorDistanceLess ⇔ the interior update flag", IsInteriorDistanceLess(x, a, b, m) == oki)
	vr.Assert("an interior update is also a (not larger) total update", vr.Implies(oki, vr.And(ok, d <= di)))
	vr.Reach("end")
}

func vrTODO_C17_update_value() {
	vr.Domain("RUF")
	x, a, b := vrBoundedPoint("x"), vrBoundedPoint("a"), vrBoundedPoint("b")
	m := s1.ChordAngle(vr.Float64("limit"))
	vr.Assume(vr.And(m >= 0, m <= 4))
	d, ok := UpdateMinDistance(x, a, b, m)
	D, _ := updateMinDistance(x, a, b, m, true)
	vr.Assert("update ⇒ value is the computed distance", vr.Implies(ok, d == D))
	vr.Reach("end")
}

func Harness_C17_endpoint_zero() {
	vr.Domain("RUF")
	a, b := vrBoundedPoint("a"), vrBoundedPoint("b")
	d, ok := UpdateMinDistance(a, a, b, s1.StraightChordAngle)
	vr.Assert("distance from an endpoint (first) is exactly zero", vr.And(ok, d == 0))
	d2, ok2 := UpdateMinDistance(b, a, b, s1.StraightChordAngle)
	vr.Assert("distance from an endpoint (second) is exactly zero", vr.And(ok2, d2 == 0))
	vr.Reach("end")
}

func Harness_C17_interpolate_ends() {
	vr.Domain("RUF")
	a, b := vrBoundedPoint("a"), vrBoundedPoint("b")
	vr.Assert("Interpolate(0) is a", Interpolate(0, a, b) == a)
	vr.Assert("Interpolate(1) is b", Interpolate(1, a, b) == b)
	vr.Reach("end")
}

func Harness_C17_max_dual() {
	vr.Domain("RUF")
	x, a, b := vrBoundedPoint("x"), vrBoundedPoint("a"), vrBoundedPoint("b")
	m := s1.ChordAngle(vr.Float64("limit"))
	vr.Assume(vr.And(m >= 0, m <= 4))
	d, ok := UpdateMaxDistance(x, a, b, m)
	vr.Assert("max: update ⇒ strictly above the limit", vr.Implies(ok, d > m))
	vr.Assert("max: no update ⇒ limit unchanged", vr.Implies(!ok, d == m))
	vr.Reach("end")
}

// EdgePairClosestPoints (non-crossing edges): the returned pair is attached to the vertex
// whose distance to the other edge is the smallest of the four vertex-edge distances.  The
// vertex-edge distance is an arbitrary non-negative function D(x, a, b) here, with
// updateMinDistance replaced by the contract established above (update exactly when D is
// strictly below the current minimum, or always on request); Project returns a marker point,
// which identifies the branch taken.  Natively the real functions run and the returned pair
// must realise the minimum vertex-edge distance.
func vrC17D(x, a, b Point) s1.ChordAngle {
	d := s1.ChordAngle(vr.UFF9("D", x.X, x.Y, x.Z, a.X, a.Y, a.Z, b.X, b.Y, b.Z))
	vr.Assume(vr.And(d >= 0, d <= 4))
	return d
}

func vrstub_C17_updateMinDistance(x, a, b Point, minDist s1.ChordAngle, alwaysUpdate bool) (s1.ChordAngle, bool) {
	d := vrC17D(x, a, b)
	if alwaysUpdate || d < minDist {
		return d, true
	}
	return minDist, false
}

func vrstub_C17_Project(x, a, b Point) Point       { return Point{r3.Vector{X: 7, Y: 7, Z: 7}} }
func vrstub_C17_NoCross(a, b, c, d Point) Crossing { return DoNotCross }

func vrC17PairRealisesMinimum(a0, a1, b0, b1 Point) bool {
	pa, pb := EdgePairClosestPoints(a0, a1, b0, b1)
	min := s1.InfChordAngle()
	min, _ = UpdateMinDistance(a0, b0, b1, min)
	min, _ = UpdateMinDistance(a1, b0, b1, min)
	min, _ = UpdateMinDistance(b0, a0, a1, min)
	min, _ = UpdateMinDistance(b1, a0, a1, min)
	return float64(ChordAngleBetweenPoints(pa, pb)) <= float64(min)+1e-12
}

func Harness_C17_edge_pair_closest_points() {
	vr.Domain("RUF")
	a0, a1, b0, b1 := vrBoundedPoint("a0"), vrBoundedPoint("a1"), vrBoundedPoint("b0"), vrBoundedPoint("b1")
	label := "the closest-point pair is attached to the vertex with the smallest vertex-edge distance"
	if vr.Symbolic() {
		vr.Stub("updateMinDistance", "vrstub_C17_updateMinDistance")
		vr.Stub("Project", "vrstub_C17_Project")
		vr.Stub("CrossingSign", "vrstub_C17_NoCross")
		pa, pb := EdgePairClosestPoints(a0, a1, b0, b1)
		d0, d1, d2, d3 := vrC17D(a0, b0, b1), vrC17D(a1, b0, b1), vrC17D(b0, a0, a1), vrC17D(b1, a0, a1)
		var chosen s1.ChordAngle
		switch {
		case pb.X == 7 && pa == a0:
			chosen = d0
		case pb.X == 7:
			chosen = d1
		case pa.X == 7 && pb == b0:
			chosen = d2
		default:
			chosen = d3
		}
		vr.Assert(label, vr.And(vr.And(chosen <= d0, chosen <= d1), vr.And(chosen <= d2, chosen <= d3)))
	} else {
		if CrossingSign(a0, a1, b0, b1) != Cross && a0.IsUnit() && a1.IsUnit() && b0.IsUnit() && b1.IsUnit() {
			vr.Assert(label, vrC17PairRealisesMinimum(a0, a1, b0, b1))
		}
		// native witnesses: the second edge's first vertex is the closest feature and its second
		// vertex is still closer to the first edge than the first edge's vertices are to the second
		ll := func(lat, lng float64) Point { return PointFromLatLng(LatLngFromDegrees(lat, lng)) }
		vr.Assert(label, vrC17PairRealisesMinimum(ll(0, -10), ll(0, 10), ll(1, 0), ll(2, 1)))
		vr.Assert(label, vrC17PairRealisesMinimum(ll(0, -10), ll(0, 10), ll(2, 1), ll(1, 0)))
		vr.Assert(label, vrC17PairRealisesMinimum(ll(1, 0), ll(2, 1), ll(0, -10), ll(0, 10)))
	}
	vr.Reach("end")
}
