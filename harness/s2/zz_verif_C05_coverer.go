package s2

import (
	"math"

	"github.com/golang/geo/r1"
	"github.com/golang/geo/s1"
)

// C05 — coverings cover, interior coverings are contained, level limits honoured.
// The real coverer (candidate queue, child expansion, level adjustment,
// normalization) runs on a concrete cap; MinLevel / MaxLevel / LevelMod / MaxCells are
// solver variables, so every branch that depends on the configuration is explored.

func vrC05Cap() Cap { return CapFromCenterAngle(PointFromCoords(0.8, 0.5, 0.3), s1.Angle(0.35)) }

// concrete probe points inside the cap (centre, and points at 0.2 and 0.34 rad from it)
func vrC05Probes() []Point {
	c := PointFromCoords(0.8, 0.5, 0.3)
	o1 := PointFromCoords(0.8, 0.5+0.2, 0.3)
	o2 := PointFromCoords(0.8-0.05, 0.5, 0.3+0.33)
	o3 := PointFromCoords(0.8+0.31, 0.5-0.1, 0.3)
	return []Point{c, o1, o2, o3}
}

func vrC05Coverer() *RegionCoverer {
	rc := &RegionCoverer{MinLevel: vr.Int("minLevel"), MaxLevel: vr.Int("maxLevel"), LevelMod: vr.Int("levelMod"), MaxCells: vr.Int("maxCells")}
	top := 2 // MaxLevel <= 3 did not finish within the thorough budget (8 min for this harness alone)
	vr.Assume(vr.And(vr.And(rc.MinLevel >= 0, rc.MinLevel <= rc.MaxLevel), rc.MaxLevel <= top))
	vr.Assume(vr.And(rc.LevelMod >= 1, rc.LevelMod <= 3))
	vr.Assume(vr.And(rc.MaxCells >= 1, rc.MaxCells <= 8))
	return rc
}

func vrLevelsOK(rc *RegionCoverer, cu CellUnion) bool {
	ok := true
	for _, id := range cu {
		l := id.Level()
		ok = vr.And(ok, vr.And(l >= rc.MinLevel, l <= rc.MaxLevel))
		ok = vr.And(ok, (l-rc.MinLevel)%rc.LevelMod == 0)
	}
	return ok
}

func Harness_C05_covering_covers() {
	vr.Domain("FPX")
	vr.Unwind(4000)
	vr.NoMerge() // keep levels and cell ids concrete per path (the options are small integers)
	rc := vrC05Coverer()
	cap := vrC05Cap()
	cov := rc.Covering(cap)
	vr.Assert("covering respects MinLevel/MaxLevel/LevelMod", vrLevelsOK(rc, cov))
	vr.Assert("covering is canonical for its coverer", rc.IsCanonical(cov))
	for _, p := range vrC05Probes() {
		if cap.ContainsPoint(p) {
			vr.Assert("every probe point of the region lies in some covering cell", cov.ContainsPoint(p))
		}
	}
	vr.Reach("end")
}

func Harness_C05_interior_covering_contained() {
	vr.Domain("FPX")
	vr.Unwind(4000)
	rc := vrC05Coverer()
	cap := vrC05Cap()
	cov := rc.InteriorCovering(cap)
	vr.Assert("interior covering respects MinLevel/MaxLevel/LevelMod", vrLevelsOK(rc, cov))
	for _, id := range cov {
		vr.Assert("every interior covering cell is contained in the region", cap.ContainsCell(CellFromCellID(id)))
	}
	vr.Assert("interior covering never exceeds MaxCells", len(cov) <= rc.MaxCells)
	vr.Reach("end")
}

// Denormalize: covered leaf set preserved and level constraints established.
func Harness_C05_denormalize() {
	vr.Unwind(80)
	id := vrValidCellID("id")
	minLevel := vr.Int("minLevel")
	levelMod := vr.Int("levelMod")
	vr.Assume(vr.And(minLevel >= 0, minLevel <= MaxLevel))
	vr.Assume(vr.And(levelMod >= 1, levelMod <= 3))
	// bound: the cell is at most one level above minLevel and the level is concrete per path
	var lv int
	if vr.Thorough() {
		lv = [...]int{0, 1, 2, 15, 28, 29, 30}[vr.Choose("leveli", 0, 6)] // all 31 levels did not finish in 8 min
	} else {
		lv = [...]int{0, 1, 15, 29, 30}[vr.Choose("leveli", 0, 4)]
		vr.Assume(levelMod <= 2)
	}
	vr.Assume(id.Level() == lv)
	vr.Assume(minLevel <= lv+1)
	cu := CellUnion{id}
	x := vrLeaf("x")
	before := vrCovered(cu, x)
	cu.Denormalize(minLevel, levelMod)
	if len(cu) > 64 {
		vr.Cut("more than 64 output cells")
	}
	vr.Assert("Denormalize preserves the covered leaves", vrCovered(cu, x) == before)
	ok := true
	for _, c := range cu {
		l := c.Level()
		ok = vr.And(ok, vr.Or(l == MaxLevel, vr.And(l >= minLevel, (l-minLevel)%levelMod == 0)))
	}
	vr.Assert("every output level is >= minLevel and on the levelMod grid (or the leaf level)", ok)
	vr.Reach("end")
}

// FastCovering (bounding cells + normalization) on a tiny cap whose bounding cells are far
// deeper than MaxLevel: level limits and the LevelMod grid must still hold.
func Harness_C05_fast_covering_levels() {
	vr.Domain("FPX")
	vr.Unwind(4000)
	vr.NoMerge()
	rc := &RegionCoverer{MinLevel: vr.Int("minLevel"), MaxLevel: vr.Int("maxLevel"), LevelMod: vr.Int("levelMod"), MaxCells: vr.Int("maxCells")}
	top := 6
	if vr.Thorough() {
		top = 8
	}
	vr.Assume(vr.And(vr.And(rc.MinLevel >= 0, rc.MinLevel <= rc.MaxLevel), rc.MaxLevel <= top))
	vr.Assume(vr.And(rc.LevelMod >= 1, rc.LevelMod <= 3))
	vr.Assume(vr.And(rc.MaxCells >= 1, rc.MaxCells <= 8))
	cap := CapFromCenterAngle(PointFromCoords(0.8, 0.5, 0.3), s1.Angle(1e-6))
	cov := rc.FastCovering(cap)
	vr.Assert("FastCovering respects MinLevel/MaxLevel/LevelMod", vrLevelsOK(rc, cov))
	vr.Assert("FastCovering covers the cap centre", cov.ContainsPoint(cap.Center()))
	vr.Reach("end")
}

// The same covering check on a thin, wide latitude-longitude rectangle on a polar face (wide
// enough that the initial candidates are the face cells, so cell ids stay concrete; the
// region predicates of Rect: IntersectsCell through the constant-latitude edge test).
func vrC05Rect() Rect {
	return Rect{
		Lat: r1.Interval{Lo: -50 * math.Pi / 180, Hi: -49.999 * math.Pi / 180},
		Lng: s1.Interval{Lo: 20 * math.Pi / 180, Hi: math.Pi},
	}
}

func Harness_C05_covering_covers_rect() {
	vr.Domain("FPX")
	vr.Unwind(4000)
	vr.NoMerge()
	rc := vrC05Coverer()
	rect := vrC05Rect()
	cov := rc.Covering(rect)
	vr.Assert("rect covering respects MinLevel/MaxLevel/LevelMod", vrLevelsOK(rc, cov))
	for _, lng := range []float64{30, 60, 78, 100, 140, 175} {
		p := PointFromLatLng(LatLng{Lat: s1.Angle(-49.9995 * math.Pi / 180), Lng: s1.Angle(lng * math.Pi / 180)})
		vr.Assert("every probe point of the rectangle lies in some covering cell", cov.ContainsPoint(p))
	}
	vr.Reach("end")
}
