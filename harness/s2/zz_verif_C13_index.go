package s2

import "math"

// C13 — answers depend on current geometry and options only, never on call history.
// ShapeIndex bookkeeping: a symbolic history of Add / Remove / Build / Reset
// operations (operation codes and operands are solver variables) is executed on
// the real index code with small concrete shapes; afterwards a query must see
// exactly the shapes that are currently present.

func vrIsIndexed(s *ShapeIndex, id int32) bool {
	for _, c := range s.cellMap {
		for _, cs := range c.shapes {
			if cs.shapeID == id {
				return true
			}
		}
	}
	return false
}

func vrC13Shapes() [4]PointVector {
	return [4]PointVector{
		{PointFromCoords(1, 0.1, 0.2)},
		{PointFromCoords(0.1, 1, 0.2)},
		{PointFromCoords(0.1, 0.2, 1)},
		{PointFromCoords(-1, 0.3, 0.1)},
	}
}

func vrC13History(k, pre int) {
	s := NewShapeIndex()
	shapes := vrC13Shapes()
	var ids [4]int32
	var present [4]bool
	n := 0
	for ; n < pre; n++ { // concrete prefix: shapes added before the symbolic part of the history
		ids[n] = s.Add(&shapes[n])
		present[n] = true
	}
	for step := 0; step < k; step++ {
		op := vr.Int("op")
		vr.Assume(vr.And(op >= 0, op <= 3))
		switch {
		case op == 0:
			if n < 4 {
				ids[n] = s.Add(&shapes[n])
				present[n] = true
				n++
			}
		case op == 1:
			if n > 0 {
				j := vr.Int("j")
				vr.Assume(vr.And(j >= 0, j < n))
				for q := 0; q < n; q++ {
					if q == j {
						s.Remove(&shapes[q])
						present[q] = false
					}
				}
			}
		case op == 2:
			s.Build()
		default:
			s.Reset()
			n = 0
			for q := range present {
				present[q] = false
			}
		}
	}
	it := s.Iterator() // any query entry point: applies pending updates
	_ = it
	vr.Assert("index is fresh after a query", s.IsFresh())
	for q := 0; q < n; q++ {
		if present[q] {
			vr.Assert("a shape currently in the index is seen by queries", vrIsIndexed(s, ids[q]))
		}
	}
	for _, c := range s.cellMap {
		for _, cs := range c.shapes {
			vr.Assert("index cells only reference shapes that are still in the index", s.shapes[cs.shapeID] != nil)
		}
	}
	vr.Reach("end")
}

func Harness_C13_index_history() {
	vr.Domain("RUF")
	vr.Unwind(64)
	if vr.Thorough() {
		vrC13History(5, 0)
	} else {
		vrC13History(4, 0)
	}
}

// The same history check started from an index that already holds two (unbuilt) shapes, so
// that short symbolic histories reach states with several removals among three shapes.
func Harness_C13_index_history_prefilled() {
	vr.Domain("RUF")
	vr.Unwind(64)
	if vr.Thorough() {
		vrC13History(4, 2)
	} else {
		vrC13History(3, 2)
	}
}

// Loop.Invert on a loop whose index has already been built (or not): every later query
// reflects the current geometry.  A concrete 40-vertex loop (above the brute-force
// threshold, so ContainsPoint goes through the ShapeIndex); the sequence of queries and
// inversions is a solver variable.
func vrC13Loop() *Loop {
	var pts []Point
	for i := 0; i < 40; i++ {
		// a small circle of radius ~0.3 rad around the +x axis, counter-clockwise
		ang := 2 * 3.141592653589793 * float64(i) / 40
		pts = append(pts, PointFromCoords(1, 0.3*math.Cos(ang), 0.3*math.Sin(ang)))
	}
	return LoopFromPoints(pts)
}

func Harness_C13_loop_invert_history() {
	vr.Domain("FPX")
	vr.Unwind(100000)
	l := vrC13Loop()
	inside := PointFromCoords(1, 0.05, -0.02)
	outside := PointFromCoords(0.2, 1, 0.1)
	inverted := false
	for step := 0; step < 3; step++ {
		op := vr.Int("op")
		vr.Assume(vr.And(op >= 0, op <= 1))
		if op == 0 {
			l.Invert()
			inverted = !inverted
		} else {
			vr.Assert("query after any history: interior point", l.ContainsPoint(inside) == !inverted)
			vr.Assert("query after any history: exterior point", l.ContainsPoint(outside) == inverted)
		}
	}
	vr.Assert("final query: interior point", l.ContainsPoint(inside) == !inverted)
	vr.Assert("final query: exterior point", l.ContainsPoint(outside) == inverted)
	vr.Reach("end")
}
