package s2

import (
	"math"

	"github.com/golang/geo/r1"
	"github.com/golang/geo/s1"
)

// C10 — bounds are conservative (the instances decidable here: bound accumulators
// only grow, and contain the point just added on the branches where that does not
// depend on trigonometric error analysis).

func vrValidRect(name string) Rect {
	r := Rect{Lat: r1.Interval{Lo: vr.Float64(name + ".latlo"), Hi: vr.Float64(name + ".lathi")}, Lng: s1.Interval{Lo: vr.Float64(name + ".lnglo"), Hi: vr.Float64(name + ".lnghi")}}
	vr.Assume(r.IsValid())
	return r
}

func vrValidLatLng(name string) LatLng {
	ll := LatLng{s1.Angle(vr.Float64(name + ".lat")), s1.Angle(vr.Float64(name + ".lng"))}
	vr.Assume(ll.IsValid())
	return ll
}

// Rect.Union replaced by its contract (established by Harness_C10_rect_union_bounds and the
// C19 interval harnesses), instantiated at the probe point: the result contains the probe if
// either operand does.
var vrC10Probe LatLng

func vrstub_C10_RectUnion(r, o Rect) Rect {
	u := vrValidRect("union")
	vr.Assume(vr.Implies(vr.Or(r.ContainsLatLng(vrC10Probe), o.ContainsLatLng(vrC10Probe)), u.ContainsLatLng(vrC10Probe)))
	return u
}

// One step of RectBounder.AddPoint from an arbitrary accumulated state: everything
// that was inside the bound stays inside (so vertices added earlier remain covered).
func vrTODO_C10_rectbounder_step_grows() {
	vr.Domain("RUF")
	rb := &RectBounder{a: vrBoundedPoint("a"), aLL: vrValidLatLng("aLL"), bound: vrValidRect("bound")}
	q := vrValidLatLng("q")
	vrC10Probe = q
	vr.Stub("(Rect).Union", "vrstub_C10_RectUnion")
	was := rb.bound.ContainsLatLng(q)
	b := vrBoundedPoint("b")
	rb.AddPoint(b)
	vr.Assert("AddPoint never removes a point from the accumulated bound", vr.Implies(was, rb.bound.ContainsLatLng(q)))
	vr.Assert("state: last vertex recorded", rb.a == b)
	vr.Reach("end")
}

// First point: the bound contains exactly the lat/lng of that point.
func Harness_C10_rectbounder_first_point() {
	vr.Domain("RUF")
	rb := NewRectBounder()
	b := vrBoundedPoint("b")
	rb.AddPoint(b)
	ll := LatLngFromPoint(b)
	vr.Assume(ll.IsValid())
	vr.Assert("after the first AddPoint the bound contains that point's lat/lng", rb.bound.ContainsLatLng(ll))
	vr.Reach("end")
}

func Harness_C10_cap_addpoint() {
	vr.Domain("RUF")
	c := Cap{center: vrBoundedPoint("c"), radius: s1.ChordAngle(vr.Float64("r"))}
	vr.Assume(vr.Or(vr.And(c.radius >= 0, c.radius <= 4), c.radius < 0))
	p, q := vrBoundedPoint("p"), vrBoundedPoint("q")
	was := c.ContainsPoint(q)
	c2 := c.AddPoint(p)
	vr.Assert("Cap.AddPoint contains the added point", c2.ContainsPoint(p))
	vr.Assert("Cap.AddPoint keeps every previously contained point", vr.Implies(was, c2.ContainsPoint(q)))
	vr.Assert("Cap.AddPoint never shrinks the radius", vr.Or(c.IsEmpty(), c2.radius >= c.radius))
	vr.Reach("end")
}

func Harness_C10_rect_union_bounds() {
	vr.Domain("RUF")
	a, b := vrValidRect("a"), vrValidRect("b")
	q := vrValidLatLng("q")
	u := a.Union(b)
	vr.Assert("Rect.Union contains every point of both", vr.Implies(vr.Or(a.ContainsLatLng(q), b.ContainsLatLng(q)), u.ContainsLatLng(q)))
	vr.Assert("Rect.Union valid", u.IsValid())
	_ = math.Pi
	vr.Reach("end")
}

func Harness_C10_polar_closure() {
	vr.Domain("RUF")
	a := vrValidRect("a")
	q := vrValidLatLng("q")
	p := a.PolarClosure()
	vr.Assert("PolarClosure contains the rectangle", vr.Implies(a.ContainsLatLng(q), p.ContainsLatLng(q)))
	vr.Reach("end")
}

// The special branches of RectBounder.AddPoint on concrete consecutive vertices: nearly
// antipodal vertices make the bound full (the edge may pass anywhere), nearly identical
// ones keep both end points inside (concrete instances executed in the engine).
func Harness_C10_rectbounder_degenerate_edges() {
	vr.Domain("FPX")
	a := PointFromCoords(1, 0, 0)
	var b Point
	anti := vr.Bool("antipodal")
	if anti {
		b = Point{a.Mul(-1)}
		b.Y = 5e-16 * 0.5
		b.Z = 5e-16 * 0.866
	} else {
		b = a
		b.Y = 3e-16
	}
	rb := NewRectBounder()
	rb.AddPoint(a)
	rb.AddPoint(b)
	if anti {
		vr.Assert("nearly antipodal consecutive vertices: the bound is full", rb.RectBound().IsFull())
	} else {
		vr.Assert("nearly identical consecutive vertices: both stay inside the bound", vr.And(rb.RectBound().ContainsPoint(a), rb.RectBound().ContainsPoint(b)))
	}
	vr.Reach("end")
}
