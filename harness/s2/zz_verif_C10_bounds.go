package s2

import (
	"math"

	"github.com/golang/geo/r1"
	"github.com/golang/geo/r3"
	"github.com/golang/geo/s1"
)

// C10 — bounds are conservative (the instances decidable here: bound accumulators
// only grow, and contain the point just added on the branches where that does not
// depend on trigonometric error analysis).

func vrValidRect(name string) Rect {
	r := Rect{Lat: r1.Interval{Lo: vr.Float64(name + ".latlo"), Hi: vr.Float64(name + ".lathi")}, Lng: s1.Interval{Lo: vr.Float64(name + ".lnglo"), Hi: vr.Float64(name + ".lnghi")}}
	vr.Assume(r.IsValid())
	return r
}

func vrValidLatLng(name string) LatLng {
	ll := LatLng{s1.Angle(vr.Float64(name + ".lat")), s1.Angle(vr.Float64(name + ".lng"))}
	vr.Assume(ll.IsValid())
	return ll
}

// Rect.Union replaced by its contract (established by Harness_C10_rect_union_bounds and the
// C19 interval harnesses), instantiated at the probe point: the result contains the probe if
// either operand does.
var vrC10Probe LatLng

func vrstub_C10_RectUnion(r, o Rect) Rect {
	u := vrValidRect("union")
	vr.Assume(vr.Implies(vr.Or(r.ContainsLatLng(vrC10Probe), o.ContainsLatLng(vrC10Probe)), u.ContainsLatLng(vrC10Probe)))
	return u
}

// One step of RectBounder.AddPoint from an arbitrary accumulated state: everything
// that was inside the bound stays inside (so vertices added earlier remain covered).
func vrTODO_C10_rectbounder_step_grows() {
	vr.Domain("RUF")
	rb := &RectBounder{a: vrBoundedPoint("a"), aLL: vrValidLatLng("aLL"), bound: vrValidRect("bound")}
	q := vrValidLatLng("q")
	vrC10Probe = q
	vr.Stub("(Rect).Union", "vrstub_C10_RectUnion")
	was := rb.bound.ContainsLatLng(q)
	b := vrBoundedPoint("b")
	rb.AddPoint(b)
	vr.Assert("AddPoint never removes a point from the accumulated bound", vr.Implies(was, rb.bound.ContainsLatLng(q)))
	vr.Assert("state: last vertex recorded", rb.a == b)
	vr.Reach("end")
}

// First point: the bound contains exactly the lat/lng of that point.
func Harness_C10_rectbounder_first_point() {
	vr.Domain("RUF")
	rb := NewRectBounder()
	b := vrBoundedPoint("b")
	rb.AddPoint(b)
	ll := LatLngFromPoint(b)
	vr.Assume(ll.IsValid())
	vr.Assert("after the first AddPoint the bound contains that point's lat/lng", rb.bound.ContainsLatLng(ll))
	vr.Reach("end")
}

func Harness_C10_cap_addpoint() {
	vr.Domain("RUF")
	c := Cap{center: vrBoundedPoint("c"), radius: s1.ChordAngle(vr.Float64("r"))}
	vr.Assume(vr.Or(vr.And(c.radius >= 0, c.radius <= 4), c.radius < 0))
	p, q := vrBoundedPoint("p"), vrBoundedPoint("q")
	was := c.ContainsPoint(q)
	c2 := c.AddPoint(p)
	vr.Assert("Cap.AddPoint contains the added point", c2.ContainsPoint(p))
	vr.Assert("Cap.AddPoint keeps every previously contained point", vr.Implies(was, c2.ContainsPoint(q)))
	vr.Assert("Cap.AddPoint never shrinks the radius", vr.Or(c.IsEmpty(), c2.radius >= c.radius))
	vr.Reach("end")
}

func Harness_C10_rect_union_bounds() {
	vr.Domain("RUF")
	a, b := vrValidRect("a"), vrValidRect("b")
	q := vrValidLatLng("q")
	u := a.Union(b)
	vr.Assert("Rect.Union contains every point of both", vr.Implies(vr.Or(a.ContainsLatLng(q), b.ContainsLatLng(q)), u.ContainsLatLng(q)))
	vr.Assert("Rect.Union valid", u.IsValid())
	_ = math.Pi
	vr.Reach("end")
}

func Harness_C10_polar_closure() {
	vr.Domain("RUF")
	a := vrValidRect("a")
	q := vrValidLatLng("q")
	p := a.PolarClosure()
	vr.Assert("PolarClosure contains the rectangle", vr.Implies(a.ContainsLatLng(q), p.ContainsLatLng(q)))
	vr.Reach("end")
}

// The special branches of RectBounder.AddPoint on concrete consecutive vertices: nearly
// antipodal vertices make the bound full (the edge may pass anywhere), nearly identical
// ones keep both end points inside (concrete instances executed in the engine).
func Harness_C10_rectbounder_degenerate_edges() {
	vr.Domain("FPX")
	a := PointFromCoords(1, 0, 0)
	var b Point
	anti := vr.Bool("antipodal")
	if anti {
		b = Point{a.Mul(-1)}
		b.Y = 5e-16 * 0.5
		b.Z = 5e-16 * 0.866
	} else {
		b = a
		b.Y = 3e-16
	}
	rb := NewRectBounder()
	rb.AddPoint(a)
	rb.AddPoint(b)
	if anti {
		vr.Assert("nearly antipodal consecutive vertices: the bound is full", rb.RectBound().IsFull())
	} else {
		vr.Assert("nearly identical consecutive vertices: both stay inside the bound", vr.And(rb.RectBound().ContainsPoint(a), rb.RectBound().ContainsPoint(b)))
	}
	vr.Reach("end")
}

// Rect.CapBound: a cap centred on the rectangle's centre through its corners bounds the
// rectangle only while the longitude span is at most 180 degrees (beyond that the farthest
// points are not the corners); wider rectangles, in particular those wrapping through ±π,
// must get a pole-centred cap.  The cap constructors are opaque here (the mid cap is
// marked by a centre with X = 7, heights are arbitrary); natively the real constructors run.
func vrstub_C10_CapFromPoint(p Point) Cap {
	return Cap{center: Point{r3.Vector{X: 7}}, radius: s1.ChordAngle(vr.Float64("midr"))}
}
func vrstub_C10_CapAddPoint(c Cap, p Point) Cap { return c }
func vrstub_C10_CapFromCenterAngle(center Point, angle s1.Angle) Cap {
	return Cap{center: center, radius: s1.ChordAngle(vr.Float64("poler"))}
}
func vrstub_C10_CapHeight(c Cap) float64 { return float64(c.radius) }
func vrstub_C10_PointFromLatLng(ll LatLng) Point { return Point{} }

func Harness_C10_rect_capbound_wide() {
	vr.Domain("RUF")
	r := vrValidRect("r")
	vr.Assume(!r.IsEmpty())
	if vr.Symbolic() {
		vr.Stub("CapFromPoint", "vrstub_C10_CapFromPoint")
		vr.Stub("(Cap).AddPoint", "vrstub_C10_CapAddPoint")
		vr.Stub("CapFromCenterAngle", "vrstub_C10_CapFromCenterAngle")
		vr.Stub("(Cap).Height", "vrstub_C10_CapHeight")
		vr.Stub("PointFromLatLng", "vrstub_C10_PointFromLatLng")
	}
	c := r.CapBound()
	wide := r.Lng.Length() > 3.25 // more than 186 degrees: clear of the rounding of the 180 degree boundary itself
	// a rectangle centred on a pole has the pole as its centre either way
	polar := vr.Or(r.Lat.Lo+r.Lat.Hi == math.Pi, r.Lat.Lo+r.Lat.Hi == -math.Pi)
	vr.Assert("a rectangle wider than 180 degrees of longitude gets a pole-centred cap", vr.Implies(vr.And(wide, !polar), vr.And(c.center.X == 0, c.center.Y == 0)))
	if !vr.Symbolic() {
		// native witnesses: rectangles wrapping through ±π, wider than 180 degrees and far from the
		// poles (where the centre cap would be the smaller one)
		for _, w := range []Rect{
			{Lat: r1.Interval{Lo: -0.5, Hi: 0.5}, Lng: s1.Interval{Lo: 1.44, Hi: -1.44}},
			{Lat: r1.Interval{Lo: -0.2, Hi: 0.3}, Lng: s1.Interval{Lo: 1.0, Hi: -1.3}},
			{Lat: r1.Interval{Lo: 0.1, Hi: 0.4}, Lng: s1.Interval{Lo: 2.0, Hi: -0.9}},
		} {
			wc := w.CapBound()
			vr.Assert("a rectangle wider than 180 degrees of longitude gets a pole-centred cap", vr.Implies(w.Lng.Length() > 3.25, wc.center.X == 0 && wc.center.Y == 0))
		}
	}
	vr.Reach("end")
}
