package s2

// C06 (shape contract part) — every Shape exposes one consistent edge set: the
// contract written in the Shape interface comments, for 7 implementations.
// Vertices are distinct concrete points (only indices matter); edge and chain
// indices are symbolic.

func vrPts(base, n int) []Point {
	pts := make([]Point, n)
	for i := range pts {
		pts[i] = Point{}
		pts[i].X = float64(base + i + 1)
		pts[i].Y = float64(7 * (base + i))
		pts[i].Z = 1
	}
	return pts
}

func vrShapeContract(s Shape) {
	vr.Domain("FPX") // float equality of selected concrete vertices only; no arithmetic
	ne := s.NumEdges()
	nc := s.NumChains()
	vr.Assert("NumEdges >= 0", ne >= 0)
	vr.Assert("NumChains >= 0", nc >= 0)
	start := 0
	for i := 0; i < nc; i++ {
		ch := s.Chain(i)
		vr.Assert("Chain(i).Start == sum of previous lengths", ch.Start == start)
		vr.Assert("Chain(i).Length >= 0", ch.Length >= 0)
		start += ch.Length
	}
	vr.Assert("chains cover exactly NumEdges", start == ne)
	if ne > 0 {
		e := vr.Int("e")
		vr.Assume(vr.And(e >= 0, e < ne))
		pos := s.ChainPosition(e)
		vr.Assert("ChainPosition.ChainID in range", vr.And(pos.ChainID >= 0, pos.ChainID < nc))
		ch := s.Chain(pos.ChainID)
		vr.Assert("ChainPosition.Offset in range", vr.And(pos.Offset >= 0, pos.Offset < ch.Length))
		vr.Assert("Chain(pos.ChainID).Start + pos.Offset == e", ch.Start+pos.Offset == e)
		vr.Assert("ChainEdge(ChainPosition(e)) == Edge(e)", s.ChainEdge(pos.ChainID, pos.Offset) == s.Edge(e))
	}
	if nc > 0 {
		i := vr.Choose("i", 0, nc-1)
		ch := s.Chain(i)
		if ch.Length > 0 {
			j := vr.Int("j")
			vr.Assume(vr.And(j >= 0, j < ch.Length))
			vr.Assert("ChainEdge(i,j) == Edge(Chain(i).Start+j)", s.ChainEdge(i, j) == s.Edge(ch.Start+j))
		}
	}
	vr.Reach("end")
}

func Harness_C06_shape_LaxLoop() {
	n := vr.Choose("n", 0, 4)
	vrShapeContract(LaxLoopFromPoints(vrPts(0, n)))
}

func Harness_C06_shape_LaxPolyline() {
	n := vr.Choose("n", 0, 4)
	vrShapeContract(LaxPolylineFromPoints(vrPts(0, n)))
}

func Harness_C06_shape_Polyline() {
	n := vr.Choose("n", 0, 4)
	p := Polyline(vrPts(0, n))
	vrShapeContract(&p)
}

func Harness_C06_shape_PointVector() {
	n := vr.Choose("n", 0, 4)
	p := PointVector(vrPts(0, n))
	vrShapeContract(&p)
}

func Harness_C06_shape_LaxPolygon() {
	nl := vr.Choose("loops", 0, 3)
	loops := make([][]Point, nl)
	base := 0
	for i := range loops {
		k := vr.Choose("size", 0, 3)
		loops[i] = vrPts(base, k)
		base += k
	}
	vrShapeContract(LaxPolygonFromPoints(loops))
}

func Harness_C06_shape_Loop() {
	n := vr.Choose("n", 2, 5) // 1-vertex loops are the empty/full sentinels (no edges)
	l := &Loop{vertices: vrPts(0, n)}
	vrShapeContract(l)
}

func vrPolygonOfLoops(nl int, holes bool) *Polygon {
	p := &Polygon{}
	base := 0
	for i := 0; i < nl; i++ {
		k := 3
		if vr.Thorough() {
			k = vr.Choose("size", 3, 4)
		}
		l := &Loop{vertices: vrPts(base, k)}
		if holes && i%2 == 1 {
			l.depth = 1
		}
		p.loops = append(p.loops, l)
		p.numVertices += k
		base += k
	}
	return p
}

// Polygon with the linear-search accessors (<= 12 loops).
func Harness_C06_shape_Polygon_linear() {
	nl := vr.Choose("loops", 1, 3)
	p := vrPolygonOfLoops(nl, true)
	p.initEdgesAndIndex()
	vrShapeContract(p)
}

// Polygon with the cumulativeEdges table (the > 12 loops path), forced on a small polygon.
func Harness_C06_shape_Polygon_cumulative() {
	nl := vr.Choose("loops", 1, 3)
	p := vrPolygonOfLoops(nl, true)
	p.initEdgesAndIndex()
	p.cumulativeEdges = make([]int, 0, nl)
	e := 0
	for _, l := range p.loops {
		p.cumulativeEdges = append(p.cumulativeEdges, e)
		e += len(l.vertices)
	}
	vrShapeContract(p)
}

// Index location logic: for an arbitrary sorted, pairwise-disjoint list of index cells,
// LocateCellID classifies the target exactly (Indexed / Subdivided / Disjoint) and positions
// the iterator as documented; LocatePoint finds the index cell containing the point's leaf.
func vrIndexWithCells(n int) *ShapeIndex {
	idx := NewShapeIndex()
	cells := vrCellIDs("cell", n)
	for i := 1; i < n; i++ {
		vr.Assume(cells[i-1].RangeMax() < cells[i].RangeMin())
	}
	idx.cells = cells
	return idx
}

func Harness_C06_locate_cellid() {
	n := vr.Choose("n", 0, 3)
	idx := vrIndexWithCells(n)
	it := NewShapeIndexIterator(idx)
	target := vrValidCellID("target")
	rel := it.LocateCellID(target)
	indexed, subdivided := false, false
	for _, c := range idx.cells {
		indexed = vr.Or(indexed, c.Contains(target))
		subdivided = vr.Or(subdivided, target.Contains(c))
	}
	vr.Assert("Indexed ⇔ some index cell contains the target", (rel == Indexed) == indexed)
	vr.Assert("Subdivided ⇔ not indexed and the target contains some index cell", (rel == Subdivided) == vr.And(!indexed, subdivided))
	vr.Assert("Disjoint otherwise", (rel == Disjoint) == vr.And(!indexed, !subdivided))
	if rel == Indexed {
		vr.Assert("Indexed: positioned on the containing cell", it.CellID().Contains(target))
	}
	if rel == Subdivided {
		first := true
		for _, c := range idx.cells {
			if first && target.Contains(c) {
				// the first index cell inside the target
				vr.Assert("Subdivided: positioned on the first index cell inside the target", it.CellID() == c)
				first = false
			}
		}
	}
	vr.Reach("end")
}

var vrC06Leaf CellID

func vrstub_C06_cellIDFromPoint(p Point) CellID { return vrC06Leaf }

func Harness_C06_locate_point() { vrLocatePointBody() }

func vrLocatePointBody() {
	vr.Stub("cellIDFromPoint", "vrstub_C06_cellIDFromPoint")
	n := vr.Choose("n", 0, 3)
	idx := vrIndexWithCells(n)
	it := NewShapeIndexIterator(idx)
	vrC06Leaf = vrLeaf("leaf")
	var p Point
	if !vr.Symbolic() {
		p = vrC06Leaf.Point() // natively the real cellIDFromPoint maps the leaf centre back to the leaf
	}
	found := it.LocatePoint(p)
	want := false
	for _, c := range idx.cells {
		want = vr.Or(want, c.Contains(vrC06Leaf))
	}
	vr.Assert("LocatePoint ⇔ some index cell contains the point's leaf cell", found == want)
	if found {
		vr.Assert("LocatePoint: positioned on the containing cell", it.CellID().Contains(vrC06Leaf))
	}
	vr.Reach("end")
}
