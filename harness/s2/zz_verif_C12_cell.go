package s2

import (
	"github.com/golang/geo/r1"
	"github.com/golang/geo/r2"
)

// C12 — cell geometry agrees with cell ids (the id / face / level / orientation /
// quadrant part; uv bounds are opaque here: ijLevelToBoundUV and centerUV are stubs).

func vrstub_C12_bound(i, j, level int) r2.Rect {
	return r2.Rect{X: r1.Interval{Lo: vr.Float64("xlo"), Hi: vr.Float64("xhi")}, Y: r1.Interval{Lo: vr.Float64("ylo"), Hi: vr.Float64("yhi")}}
}
func vrstub_C12_centerUV(ci CellID) r2.Point { return r2.Point{X: vr.Float64("cu"), Y: vr.Float64("cv")} }

func Harness_C12_children_match_ids() {
	vr.Stub("ijLevelToBoundUV", "vrstub_C12_bound")
	vr.Stub("(CellID).centerUV", "vrstub_C12_centerUV")
	id := vrValidCellID("id")
	vr.Assume(!id.IsLeaf())
	c := CellFromCellID(id)
	ch, ok := c.Children()
	vr.Assert("non-leaf cell has children", ok)
	ids := id.Children()
	_, pi, pj, _ := id.faceIJOrientation()
	lvl := id.Level()
	half := sizeIJ(lvl + 1)
	for k := 0; k < 4; k++ {
		d := CellFromCellID(ids[k])
		vr.Assert("child k of the Cell has the id of child k of the CellID", ch[k].id == ids[k])
		vr.Assert("child face/level/orientation == construction from the child id", vr.And(ch[k].face == d.face, vr.And(ch[k].level == d.level, ch[k].orientation == d.orientation)))
		// quadrant: the child's ij square is the posToIJ[orientation][k] quadrant of the parent's
		_, ci, cj, _ := ids[k].faceIJOrientation()
		q := posToIJ[c.orientation][k]
		wantI := (pi & -sizeIJ(lvl)) + (q>>1)*half
		wantJ := (pj & -sizeIJ(lvl)) + (q&1)*half
		vr.Assert("child k occupies quadrant posToIJ[orientation][k]", vr.And(ci&-half == wantI, cj&-half == wantJ))
	}
	vr.Reach("end")
}

func Harness_C12_leaf_has_no_children() {
	vr.Stub("ijLevelToBoundUV", "vrstub_C12_bound")
	id := vrLeaf("id")
	_, ok := CellFromCellID(id).Children()
	vr.Assert("leaf cell has no children", !ok)
	vr.Reach("end")
}

func Harness_C12_contains_by_id() {
	vr.Stub("ijLevelToBoundUV", "vrstub_C12_bound")
	a, b := vrValidCellID("a"), vrValidCellID("b")
	ca, cb := CellFromCellID(a), CellFromCellID(b)
	vr.Assert("ContainsCell ⇔ id containment", ca.ContainsCell(cb) == a.Contains(b))
	vr.Assert("IntersectsCell ⇔ id intersection", ca.IntersectsCell(cb) == a.Intersects(b))
	vr.Assert("cell fields from id", vr.And(int(ca.face) == a.Face(), int(ca.level) == a.Level()))
	vr.Reach("end")
}

// Bounds of the six face cells and their children contain the cell's own vertices and
// centre (concrete instances executed in the engine: the level-0 rectangles are
// hand-written constants per face).
func Harness_C12_face_cell_bounds_contain_vertices() {
	vr.Domain("FPX")
	f := vr.Choose("face", 0, 5)
	id := CellIDFromFace(f)
	if vr.Choose("child", 0, 4) > 0 {
		id = id.Children()[0]
	}
	c := CellFromCellID(id)
	rb, cb := c.RectBound(), c.CapBound()
	for k := 0; k < 4; k++ {
		v := c.Vertex(k)
		vr.Assert("RectBound contains the cell's vertices", rb.ContainsPoint(v))
		vr.Assert("CapBound contains the cell's vertices", cb.ContainsPoint(v))
	}
	vr.Assert("RectBound contains the cell's centre", rb.ContainsPoint(c.Center()))
	vr.Assert("CapBound contains the cell's centre", cb.ContainsPoint(c.Center()))
	vr.Reach("end")
}
