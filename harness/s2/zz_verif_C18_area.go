package s2

import (
	"math"

	"github.com/golang/geo/r3"
)

// C18 — the decision step of Loop.Area: the triangle-fan sum decides the magnitude, the
// curvature-based orientation (IsNormalized) decides the side when the sum is within the
// error bound of 0 or 4*pi.  The real Area runs on a loop whose signed fan sum and whose
// orientation are solver variables (surfaceIntegralFloat64 and IsNormalized are stubbed by
// arbitrary values), under the error model the code documents: there is a true signed area
// A (small in magnitude: a sliver or the complement of one), the computed sum of the loop is
// within maxError/2 of A, the computed sum of the reversed loop within maxError/2 of -A, and
// the orientation test agrees with the sign of A (either answer when A = 0).
var vrC18LoopA, vrC18LoopB *Loop
var vrC18SumA, vrC18SumB float64
var vrC18NrmA bool

func vrstub_C18_integral(l *Loop, f func(a, b, c Point) float64) float64 {
	if l == vrC18LoopA {
		return vrC18SumA
	}
	return vrC18SumB
}

func vrstub_C18_IsNormalized(l *Loop) bool {
	if l == vrC18LoopA {
		return vrC18NrmA
	}
	return !vrC18NrmA
}

// A concrete counter-clockwise sliver (true area far below the rounding noise of the fan
// sum, which comes out negative for this vertex order) used by the native replay.
func vrC18Sliver() []Point {
	return []Point{
		{r3.Vector{X: 0x1.e408c0df9fb9bp-01, Y: 0x1.4dcbb60067626p-02, Z: -0x1.2680ded347449p-56}},
		{r3.Vector{X: 0x1.a8315fafb2af3p-01, Y: 0x1.1eb68eead5a89p-01, Z: -0x1.3762e935498d8p-58}},
		{r3.Vector{X: 0x1.452114ded72c8p-01, Y: 0x1.8b84c4fb7cf37p-01, Z: 0x1.06499740b39c2p-57}},
		{r3.Vector{X: 0x1.f44a67e6fbc1fp-01, Y: 0x1.b37da86f318f7p-03, Z: 0x1.5915e8639ba6fp-56}},
	}
}

func Harness_C18_area_orientation_decision() {
	vr.Domain("RUF")
	w := vrC18Sliver()
	var a, b float64
	var nrm bool
	maxErr := 11.25 * dblEpsilon * 4
	if vr.Symbolic() {
		vr.Stub("(*Loop).surfaceIntegralFloat64", "vrstub_C18_integral")
		vr.Stub("(*Loop).IsNormalized", "vrstub_C18_IsNormalized")
		rev := []Point{w[3], w[2], w[1], w[0]}
		vrC18LoopA, vrC18LoopB = &Loop{vertices: w}, &Loop{vertices: rev}
		tA := vr.Float64("A")
		vrC18SumA, vrC18SumB, vrC18NrmA = vr.Float64("sumA"), vr.Float64("sumB"), vr.Bool("normalizedA")
		vr.Assume(vr.And(tA >= -1, tA <= 1))
		vr.Assume(vr.And(vr.RSub(vrC18SumA, tA) < maxErr/2, vr.RSub(tA, vrC18SumA) < maxErr/2))
		vr.Assume(vr.And(vr.RAdd(vrC18SumB, tA) < maxErr/2, vr.RAdd(vrC18SumB, tA) > -maxErr/2))
		vr.Assume(vr.And(vr.Implies(tA > 0, vrC18NrmA), vr.Implies(tA < 0, !vrC18NrmA)))
		nrm = vrC18NrmA
		a, b = vrC18LoopA.Area(), vrC18LoopB.Area()
	} else {
		la := LoopFromPoints(w)
		lb := LoopFromPoints([]Point{w[3], w[2], w[1], w[0]})
		nrm = la.IsNormalized()
		vr.Assert("witness sliver is a valid loop that does not contain the pole", la.Validate() == nil && !la.ContainsPoint(PointFromCoords(0, 0, 1)))
		a, b = la.Area(), lb.Area()
	}
	vr.Assert("area lies in [0, 4*pi]", vr.And(vr.And(a >= 0, a <= 4*math.Pi), vr.And(b >= 0, b <= 4*math.Pi)))
	vr.Assert("a loop oriented as a small region has area near 0, not near 4*pi", vr.Implies(nrm, vr.And(a < 2, b > 4*math.Pi-2)))
	vr.Assert("a loop oriented as the complement of a small region has area near 4*pi", vr.Implies(!nrm, vr.And(a > 4*math.Pi-2, b < 2)))
	vr.Assert("areas of a loop and of its reverse add up to the sphere", math.Abs(a+b-4*math.Pi) <= 1e-9)
	vr.Reach("end")
}
