package s2

import (
	"math"

	"github.com/golang/geo/r3"
)

// C16 — the intersection point is independent of argument order.
// Exactly collinear edges (the collinear fallback of intersectionExact): all four
// points lie in the plane X = 0, so both edge normals are parallel to the X axis and
// their cross product is exactly zero for every choice of the remaining coordinates.
// RobustSign is replaced by the sign of the exact determinant (assumed non-zero:
// general position inside the plane) — C02 establishes that this is what it returns.

func vrstub_C16_RobustSign(a, b, c Point) Direction {
	d := vrDetSign(a.Vector, b.Vector, c.Vector)
	vr.Assume(d != 0)
	return Direction(d)
}

func vrPlanePoint(name string) Point {
	p := Point{r3.Vector{X: 0, Y: vr.Float64(name + ".y"), Z: vr.Float64(name + ".z")}}
	vr.Assume(vr.And(vr.And(p.Y >= -1, p.Y <= 1), vr.And(p.Z >= -1, p.Z <= 1)))
	vr.Assume(vr.Or(p.Y != 0, p.Z != 0))
	return p
}

func Harness_C16_exact_collinear_order_independent() {
	vr.Domain("RUF")
	// nonlinear real arithmetic: one back end (z3 5.1.0) decides these queries, the others do not
	// answer within the thorough budget, so the first definitive answer decides in both tiers
	vr.FirstAnswer()
	// the final rounding of the exact result to float64 is modelled with relative error only (no
	// subnormal result coordinates); with the subnormal slack term the path conditions of this
	// harness take 3-4 times longer to decide and the harness exceeds its time budget
	vr.NoUnderflow()
	vr.Stub("RobustSign", "vrstub_C16_RobustSign")
	a0, a1, b0, b1 := vrPlanePoint("a0"), vrPlanePoint("a1"), vrPlanePoint("b0"), vrPlanePoint("b1")
	// valid edges: endpoints neither identical nor antipodal (non-zero edge normals)
	vr.Assume(a0.Y*a1.Z != a0.Z*a1.Y)
	vr.Assume(b0.Y*b1.Z != b0.Z*b1.Y)
	x := intersectionExact(a0, a1, b0, b1)
	vr.Assert("reversing the first edge does not change the result", intersectionExact(a1, a0, b0, b1) == x)
	vr.Assert("reversing the second edge does not change the result", intersectionExact(a0, a1, b1, b0) == x)
	vr.Assert("swapping the edges does not change the result", intersectionExact(b0, b1, a0, a1) == x)
	vr.Reach("end")
}

// The tie-break used by the stable path for edges of equal length is a consistent order
// on undirected edges: unchanged by reversing either edge, and antisymmetric.
func Harness_C16_compare_edges_consistent() {
	vr.Domain("RUF")
	a0, a1, b0, b1 := Point{vrVec("a0")}, Point{vrVec("a1")}, Point{vrVec("b0")}, Point{vrVec("b1")}
	vr.Assume(vr.And(a0 != a1, b0 != b1))
	// Intersection requires edges that cross at an interior point, so they share no endpoint.
	// (With a shared smaller endpoint compareEdges answers true in both orders: its last clause
	// compares b0 with b1 where the C++ original compares a1 with b1 — unreachable for crossing
	// edges, recorded as observation O4 in DESIGN §9.3.)
	vr.Assume(vr.And(vr.And(a0 != b0, a0 != b1), vr.And(a1 != b0, a1 != b1)))
	c := compareEdges(a0, a1, b0, b1)
	vr.Assert("reversing the first edge does not change the order", compareEdges(a1, a0, b0, b1) == c)
	vr.Assert("reversing the second edge does not change the order", compareEdges(a0, a1, b1, b0) == c)
	same := vr.Or(vr.And(a0 == b0, a1 == b1), vr.And(a0 == b1, a1 == b0))
	vr.Assert("antisymmetric on distinct undirected edges", vr.Implies(!same, compareEdges(b0, b1, a0, a1) == !c))
	vr.Reach("end")
}

// The stable (float) path: projection(x, aNorm, aNormLen, a0, a1) picks the endpoint of the
// edge that is closer to x, with a deterministic tie-break, so that reversing the edge
// (which negates the edge normal exactly) negates the projection exactly and leaves the
// error bound unchanged. That is the step on which the bit-identity of the stable path
// under reversal rests (everything else in getIntersectionStableSorted is symmetric
// arithmetic on the two projections).
func Harness_C16_projection_reversal() {
	vr.Domain("RUF")
	x, a0, a1 := vrBoundedPoint("x"), vrBoundedPoint("a0"), vrBoundedPoint("a1")
	n := vrVec("n")
	vr.Assume(vr.And(vr.And(math.Abs(n.X) <= 4, math.Abs(n.Y) <= 4), math.Abs(n.Z) <= 4))
	nl := vr.Float64("nlen")
	vr.Assume(vr.And(nl >= 0, nl <= 4))
	p, e := projection(x.Vector, n, nl, a0, a1)
	q, f := projection(x.Vector, r3.Vector{X: -n.X, Y: -n.Y, Z: -n.Z}, nl, a1, a0)
	vr.Assert("reversing the edge negates the projection exactly", q == -p)
	vr.Assert("reversing the edge leaves the error bound unchanged", f == e)
	vr.Reach("end")
}

// (Not registered: every query of this harness came back unknown within 60 s on all back ends.)
// The rest of the stable path on top of that step.  projection is replaced by an arbitrary
// function with exactly the contract established by Harness_C16_projection_reversal
// (uninterpreted on the edge oriented with its lexicographically smaller endpoint first,
// negated for the other orientation; the error bound does not depend on the orientation).
// Then reversing either edge negates the interpolated vector exactly, leaves the accept /
// reject decision unchanged, and after the final hemisphere test of Intersection the same
// point is returned.
func vrstub_C16_projection(x, n r3.Vector, nl float64, a0, a1 Point) (float64, float64) {
	flip := a0.Cmp(a1.Vector) > 0
	if flip {
		a0, a1 = a1, a0
		n = r3.Vector{X: -n.X, Y: -n.Y, Z: -n.Z}
	}
	h := vr.UFF9("projh", x.X, x.Y, x.Z, n.X, n.Y, n.Z, nl, 0, 0)
	p := vr.UFF9("proj", a0.X, a0.Y, a0.Z, a1.X, a1.Y, a1.Z, h, 0, 0)
	e := vr.UFF9("projerr", a0.X, a0.Y, a0.Z, a1.X, a1.Y, a1.Z, h, 1, 0)
	vr.Assume(e >= 0)
	if flip {
		p = -p
	}
	return p, e
}

func vrTODO_C16_stable_path_reversal() {
	vr.Domain("RUF")
	a0, a1, b0, b1 := vrBoundedPoint("a0"), vrBoundedPoint("a1"), vrBoundedPoint("b0"), vrBoundedPoint("b1")
	vr.Assume(vr.And(a0 != a1, b0 != b1))
	if vr.Symbolic() {
		vr.Stub("projection", "vrstub_C16_projection")
	}
	neg := func(u, v Point) bool { return vr.And(vr.And(u.X == -v.X, u.Y == -v.Y), u.Z == -v.Z) }
	p, ok := intersectionStableSorted(a0, a1, b0, b1)
	if vr.Choose("which", 0, 1) == 0 {
		q, okq := intersectionStableSorted(a1, a0, b0, b1)
		vr.Assert("reversing the first edge does not change whether the stable result is accepted", okq == ok)
		vr.Assert("reversing the first edge negates the stable result exactly", vr.Implies(ok, neg(q, p)))
	} else {
		r, okr := intersectionStableSorted(a0, a1, b1, b0)
		vr.Assert("reversing the second edge does not change whether the stable result is accepted", okr == ok)
		vr.Assert("reversing the second edge negates the stable result exactly", vr.Implies(ok, neg(r, p)))
	}
	vr.Reach("end")
}
