package s2

import "github.com/golang/geo/r3"

// C16 — the intersection point is independent of argument order.
// Exactly collinear edges (the collinear fallback of intersectionExact): all four
// points lie in the plane X = 0, so both edge normals are parallel to the X axis and
// their cross product is exactly zero for every choice of the remaining coordinates.
// RobustSign is replaced by the sign of the exact determinant (assumed non-zero:
// general position inside the plane) — C02 establishes that this is what it returns.

func vrstub_C16_RobustSign(a, b, c Point) Direction {
	d := vrDetSign(a.Vector, b.Vector, c.Vector)
	vr.Assume(d != 0)
	return Direction(d)
}

func vrPlanePoint(name string) Point {
	p := Point{r3.Vector{X: 0, Y: vr.Float64(name + ".y"), Z: vr.Float64(name + ".z")}}
	vr.Assume(vr.And(vr.And(p.Y >= -1, p.Y <= 1), vr.And(p.Z >= -1, p.Z <= 1)))
	vr.Assume(vr.Or(p.Y != 0, p.Z != 0))
	return p
}

func Harness_C16_exact_collinear_order_independent() {
	vr.Domain("RUF")
	vr.Stub("RobustSign", "vrstub_C16_RobustSign")
	a0, a1, b0, b1 := vrPlanePoint("a0"), vrPlanePoint("a1"), vrPlanePoint("b0"), vrPlanePoint("b1")
	// valid edges: endpoints neither identical nor antipodal (non-zero edge normals)
	vr.Assume(a0.Y*a1.Z != a0.Z*a1.Y)
	vr.Assume(b0.Y*b1.Z != b0.Z*b1.Y)
	x := intersectionExact(a0, a1, b0, b1)
	vr.Assert("reversing the first edge does not change the result", intersectionExact(a1, a0, b0, b1) == x)
	vr.Assert("reversing the second edge does not change the result", intersectionExact(a0, a1, b1, b0) == x)
	vr.Assert("swapping the edges does not change the result", intersectionExact(b0, b1, a0, a1) == x)
	vr.Reach("end")
}
