package s2

import (
	"io"
	"math"

	"github.com/golang/geo/r3"

	"github.com/golang/geo/r1"
	"github.com/golang/geo/s1"
)

// C09 — encoding is lossless: Decode(Encode(v)) reproduces every field bit for bit,
// consumes exactly the bytes written and reports no error.  Floats travel as bit
// patterns, so the claim is a pure bit-vector problem.

type vrWriter struct{ buf []byte }

func (w *vrWriter) Write(p []byte) (int, error) {
	w.buf = append(w.buf, p...)
	return len(p), nil
}

// vrBufReader: plain reader over the bytes just written (concrete length).
type vrBufReader struct {
	s   []byte
	pos int
}

func (r *vrBufReader) Read(p []byte) (int, error) {
	if r.pos >= len(r.s) {
		return 0, io.EOF
	}
	n := copy(p, r.s[r.pos:])
	r.pos += n
	return n, nil
}

func (r *vrBufReader) ReadByte() (byte, error) {
	if r.pos >= len(r.s) {
		return 0, io.EOF
	}
	b := r.s[r.pos]
	r.pos++
	return b, nil
}

func vrPoint(name string) Point { return Point{vrVec(name)} }

func vrSamePoint(a, b Point) bool {
	return vr.And(vr.SameBits(a.X, b.X), vr.And(vr.SameBits(a.Y, b.Y), vr.SameBits(a.Z, b.Z)))
}

func Harness_C09_primitives() {
	x := vr.Int32("x")
	vr.Assert("zigzag round trip", zigzagDecode(zigzagEncode(x)) == x)
	a, b := vr.Uint32("a"), vr.Uint32("b")
	da, db := deinterleaveUint32(interleaveUint32(a, b))
	vr.Assert("interleave round trip", vr.And(da == a, db == b))
	vr.Reach("end")
}

func Harness_C09_nthderivative() {
	enc := newNthDerivativeCoder(derivativeEncodingOrder)
	dec := newNthDerivativeCoder(derivativeEncodingOrder)
	n := 4
	if vr.Thorough() {
		n = 6
	}
	ok := true
	for i := 0; i < n; i++ {
		k := vr.Int32("k")
		ok = vr.And(ok, dec.decode(enc.encode(k)) == k)
	}
	vr.Assert("nth-derivative coder round trip (arbitrary int32 incl. wrap-around)", ok)
	vr.Reach("end")
}

func Harness_C09_uvarint_and_fixed() {
	w := &vrWriter{}
	e := &encoder{w: w}
	u := vr.Uint64("u")
	f := vr.Float64("f")
	i8 := vr.Int8("i8")
	u32 := vr.Uint32("u32")
	bb := vr.Bool("b")
	e.writeUvarint(u)
	e.writeFloat64(f)
	e.writeInt8(i8)
	e.writeUint32(u32)
	e.writeBool(bb)
	e.writeUint64(u)
	r := &vrBufReader{s: w.buf}
	d := &decoder{r: r}
	vr.Assert("uvarint", d.readUvarint() == u)
	vr.Assert("float64 bits", vr.SameBits(d.readFloat64(), f))
	vr.Assert("int8", d.readInt8() == i8)
	vr.Assert("uint32", d.readUint32() == u32)
	vr.Assert("bool", d.readBool() == bb)
	vr.Assert("uint64", d.readUint64() == u)
	vr.Assert("no error", vr.And(e.err == nil, d.err == nil))
	vr.Assert("all bytes consumed", r.pos == len(w.buf))
	vr.Reach("end")
}

func Harness_C09_point_cap_rect_cellid() {
	p := vrPoint("p")
	c := Cap{center: vrPoint("c"), radius: s1.ChordAngle(vr.Float64("r"))}
	rc := Rect{Lat: r1.Interval{Lo: vr.Float64("latlo"), Hi: vr.Float64("lathi")}, Lng: s1.Interval{Lo: vr.Float64("lnglo"), Hi: vr.Float64("lnghi")}}
	id := CellID(vr.Uint64("id"))
	w := &vrWriter{}
	vr.Assert("encode errors", vr.And(vr.And(p.Encode(w) == nil, c.Encode(w) == nil), vr.And(rc.Encode(w) == nil, id.Encode(w) == nil)))
	r := &vrBufReader{s: w.buf}
	var p2 Point
	var c2 Cap
	var rc2 Rect
	var id2 CellID
	vr.Assert("decode errors", vr.And(vr.And(p2.Decode(r) == nil, c2.Decode(r) == nil), vr.And(rc2.Decode(r) == nil, id2.Decode(r) == nil)))
	vr.Assert("Point", vrSamePoint(p, p2))
	vr.Assert("Cap", vr.And(vrSamePoint(c.center, c2.center), vr.SameBits(float64(c.radius), float64(c2.radius))))
	vr.Assert("Rect", vr.And(vr.And(vr.SameBits(rc.Lat.Lo, rc2.Lat.Lo), vr.SameBits(rc.Lat.Hi, rc2.Lat.Hi)), vr.And(vr.SameBits(rc.Lng.Lo, rc2.Lng.Lo), vr.SameBits(rc.Lng.Hi, rc2.Lng.Hi))))
	vr.Assert("CellID", id == id2)
	vr.Assert("all bytes consumed", r.pos == len(w.buf))
	vr.Reach("end")
}

func Harness_C09_cellunion_polyline() {
	n := vr.Choose("n", 0, 3)
	cu := make(CellUnion, n)
	for i := range cu {
		cu[i] = CellID(vr.Uint64("id"))
	}
	m := vr.Choose("m", 0, 3)
	pl := make(Polyline, m)
	for i := range pl {
		pl[i] = vrPoint("v")
	}
	w := &vrWriter{}
	vr.Assert("encode errors", vr.And(cu.Encode(w) == nil, pl.Encode(w) == nil))
	r := &vrBufReader{s: w.buf}
	var cu2 CellUnion
	var pl2 Polyline
	vr.Assert("decode errors", vr.And(cu2.Decode(r) == nil, pl2.Decode(r) == nil))
	vr.Assert("CellUnion length", len(cu2) == n)
	vr.Assert("Polyline length", len(pl2) == m)
	ok := true
	for i := 0; i < n && i < len(cu2); i++ {
		ok = vr.And(ok, cu[i] == cu2[i])
	}
	for i := 0; i < m && i < len(pl2); i++ {
		ok = vr.And(ok, vrSamePoint(pl[i], pl2[i]))
	}
	vr.Assert("elements identical, in order", ok)
	vr.Assert("all bytes consumed", r.pos == len(w.buf))
	vr.Reach("end")
}

func Harness_C09_loop_lossless() {
	vrC15Stubs()
	n := vr.Choose("n", 0, 3)
	l := &Loop{vertices: make([]Point, n), originInside: vr.Bool("origin"), depth: int(vr.Uint32("depth") & 0x7fffffff)}
	for i := range l.vertices {
		l.vertices[i] = vrPoint("v")
	}
	l.bound = Rect{Lat: r1.Interval{Lo: vr.Float64("latlo"), Hi: vr.Float64("lathi")}, Lng: s1.Interval{Lo: vr.Float64("lnglo"), Hi: vr.Float64("lnghi")}}
	w := &vrWriter{}
	vr.Assert("encode error", l.Encode(w) == nil)
	r := &vrBufReader{s: w.buf}
	var l2 Loop
	vr.Assert("decode error", l2.Decode(r) == nil)
	vr.Assert("vertex count", len(l2.vertices) == n)
	ok := true
	for i := 0; i < n && i < len(l2.vertices); i++ {
		ok = vr.And(ok, vrSamePoint(l.vertices[i], l2.vertices[i]))
	}
	vr.Assert("vertices identical, in order", ok)
	vr.Assert("originInside", l2.originInside == l.originInside)
	vr.Assert("depth", l2.depth == l.depth)
	vr.Assert("bound", vr.And(vr.And(vr.SameBits(l.bound.Lat.Lo, l2.bound.Lat.Lo), vr.SameBits(l.bound.Lat.Hi, l2.bound.Lat.Hi)), vr.And(vr.SameBits(l.bound.Lng.Lo, l2.bound.Lng.Lo), vr.SameBits(l.bound.Lng.Hi, l2.bound.Lng.Hi))))
	vr.Assert("all bytes consumed", r.pos == len(w.buf))
	vr.Reach("end")
}

// Compressed point sequences.  facePiQitoXYZ (float geometry) is replaced by a stub
// that packs its integer arguments into the bit patterns of the result, so the
// decoded point of a snapped vertex exposes exactly which (face, pi, qi, level) the
// decoder reconstructed; un-snapped vertices must come back bit for bit.
func vrstub_packPiQi(face int, pi, qi uint32, level int) r3.Vector {
	return r3.Vector{X: math.Float64frombits(uint64(face)<<8 | uint64(level)), Y: math.Float64frombits(uint64(pi)), Z: math.Float64frombits(uint64(qi))}
}

// The varint byte layer is checked by Harness_C09_uvarint_and_fixed; here a uvarint
// travels as a fixed 8-byte token (same value out as in), which removes the
// 10-way length split per value without touching the codec logic above it.
func vrstub_writeUvarintFixed(e *encoder, x uint64) { e.writeUint64(x) }
func vrstub_readUvarintFixed(d *decoder) uint64     { return d.readUint64() }

func Harness_C09_points_compressed() {
	vr.Stub("facePiQitoXYZ", "vrstub_packPiQi")
	vr.Stub("(*encoder).writeUvarint", "vrstub_writeUvarintFixed")
	vr.Stub("(*decoder).readUvarint", "vrstub_readUvarintFixed")
	vr.Unwind(64)
	// snap level: concrete per path (all 31 levels in the thorough tier, the byte-count
	// boundaries and extremes in the quick tier)
	var L int
	nmax := 2
	if vr.Thorough() {
		L = vr.Choose("L", 0, MaxLevel) // n stays <= 2: three vertices at all 31 levels exceed the time budget
	} else {
		L = [...]int{0, 1, 8, 9, 16, 17, 24, 30}[vr.Choose("Li", 0, 7)]
	}
	n := vr.Choose("n", 0, nmax)
	vs := make([]xyzFaceSiTi, n)
	for i := range vs {
		vs[i].xyz = vrPoint("xyz")
		vs[i].face = vr.Int("face")
		vr.Assume(vr.And(vs[i].face >= 0, vs[i].face < 6))
		vs[i].si = vr.Uint32("si")
		vs[i].ti = vr.Uint32("ti")
		vr.Assume(vr.And(vs[i].si <= maxSiTi, vs[i].ti <= maxSiTi))
		vs[i].level = vr.Int("level")
		vr.Assume(vr.And(vs[i].level >= -1, vs[i].level <= MaxLevel))
	}
	w := &vrWriter{}
	e := &encoder{w: w}
	encodePointsCompressed(e, vs, L)
	vr.Assert("encode error", e.err == nil)
	r := &vrBufReader{s: w.buf}
	d := &decoder{r: r}
	out := make([]Point, n)
	decodePointsCompressed(d, L, out)
	vr.Assert("decode error", d.err == nil)
	for i := range vs {
		// facePiQitoXYZ: symbolically the packing stub, natively the real cell-centre geometry
		want := Point{facePiQitoXYZ(vs[i].face, siTitoPiQi(vs[i].si, L), siTitoPiQi(vs[i].ti, L), L)}
		if vs[i].level == L {
			vr.Assert("snapped vertex decodes to the centre of its own (face,pi,qi) cell", vrSamePoint(out[i], want))
		} else {
			vr.Assert("un-snapped vertex decodes to its exact bits", vrSamePoint(out[i], vs[i].xyz))
		}
	}
	vr.Assert("all bytes consumed", r.pos == len(w.buf))
	vr.Reach("end")
}

// Compressed loop header: the properties word carries originInside and the
// bound-present flag independently, for loops below and above the 64-vertex threshold.
func Harness_C09_loop_compressed_properties() {
	n := [...]int{0, 3, 63, 64, 65}[vr.Choose("ni", 0, 4)]
	l := &Loop{vertices: make([]Point, n), originInside: vr.Bool("originInside")}
	props := l.compressedEncodingProperties()
	vr.Assert("originInside bit", (props&originInside != 0) == l.originInside)
	vr.Assert("bound flag ⇔ at least 64 vertices", (props&boundEncoded != 0) == (n >= 64))
	vr.Assert("no other bits", props&^uint64(originInside|boundEncoded) == 0)
	vr.Reach("end")
}

// Compressed loop round trip (small loops): vertices via the compressed point codec,
// originInside and depth through the properties/uvarint fields.
func Harness_C09_loop_compressed_roundtrip() {
	vrC15Stubs()
	vr.Stub("facePiQitoXYZ", "vrstub_packPiQi")
	vr.Stub("(*encoder).writeUvarint", "vrstub_writeUvarintFixed")
	vr.Stub("(*decoder).readUvarint", "vrstub_readUvarintFixed")
	vr.Unwind(64)
	L := [...]int{0, 9, 30}[vr.Choose("Li", 0, 2)]
	n := vr.Choose("n", 0, 2)
	vs := make([]xyzFaceSiTi, n)
	l := &Loop{vertices: make([]Point, n), originInside: vr.Bool("originInside"), depth: int(vr.Uint32("depth") & 0xffff)}
	for i := range vs {
		vs[i].xyz = vrPoint("xyz")
		l.vertices[i] = vs[i].xyz
		vs[i].face = vr.Int("face")
		vr.Assume(vr.And(vs[i].face >= 0, vs[i].face < 6))
		vs[i].si, vs[i].ti = vr.Uint32("si"), vr.Uint32("ti")
		vr.Assume(vr.And(vs[i].si <= maxSiTi, vs[i].ti <= maxSiTi))
		vs[i].level = -1 // un-snapped: the exact bits must come back
	}
	w := &vrWriter{}
	e := &encoder{w: w}
	l.encodeCompressed(e, L, vs)
	vr.Assert("encode error", e.err == nil)
	r := &vrBufReader{s: w.buf}
	d := &decoder{r: r}
	l2 := new(Loop)
	l2.decodeCompressed(d, L)
	vr.Assert("decode error", d.err == nil)
	vr.Assert("vertex count", len(l2.vertices) == n)
	ok := true
	for i := 0; i < n && i < len(l2.vertices); i++ {
		ok = vr.And(ok, vrSamePoint(l2.vertices[i], l.vertices[i]))
	}
	vr.Assert("vertices identical", ok)
	vr.Assert("originInside", l2.originInside == l.originInside)
	vr.Assert("depth", l2.depth == l.depth)
	vr.Assert("all bytes consumed", r.pos == len(w.buf))
	vr.Reach("end")
}
