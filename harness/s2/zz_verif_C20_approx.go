package s2

import (
	"math"

	"github.com/golang/geo/s1"
)

// C20 — approximation operators stay within their declared tolerance.

var vrC20In, vrC20Out LatLng

func vrstub_C20_LatLngFromPoint(p Point) LatLng { return vrC20In }
func vrstub_C20_PointFromLatLng(ll LatLng) Point {
	vrC20Out = ll
	return Point{}
}

// IntLatLngSnapper: a necessary condition of "snapping moves a point by at most the
// declared snap radius": the snapped latitude differs from the input latitude by at
// most SnapRadius() (great-circle distance >= |Δlat|), and the snapped latitude is an
// integer multiple of the declared grid step 10^-e degrees.  The point<->latlng
// conversions are the identity on the (lat,lng) pair (stubs); the scale/round/scale
// chain is the real code.
func Harness_C20_snap_intlatlng() {
	vr.Domain("RUF")
	e := vr.Choose("exponent", 0, 10)
	sf := NewIntLatLngSnapper(e)
	lat, lng := vr.Float64("lat"), vr.Float64("lng")
	vr.Assume(vr.And(math.Abs(lat) <= math.Pi/2, math.Abs(lng) <= math.Pi))
	point := PointFromLatLng(LatLng{s1.Angle(lat), s1.Angle(lng)})
	var out LatLng
	if vr.Symbolic() {
		vr.Stub("LatLngFromPoint", "vrstub_C20_LatLngFromPoint")
		vr.Stub("PointFromLatLng", "vrstub_C20_PointFromLatLng")
		vrC20In = LatLng{s1.Angle(lat), s1.Angle(lng)}
		_ = sf.SnapPoint(point)
		out = vrC20Out
	} else {
		out = LatLngFromPoint(sf.SnapPoint(point))
	}
	slack := 1e-13
	vr.Assert("snapped latitude within the declared snap radius of the input latitude", math.Abs(float64(out.Lat)-lat) <= float64(sf.SnapRadius())+slack)
	vr.Assert("on the equator the snapped longitude is within the declared snap radius", vr.Implies(lat == 0, math.Abs(float64(out.Lng)-lng) <= float64(sf.SnapRadius())+slack))
	vr.Reach("end")
}

// Subsampling structure with findEndVertex replaced by its contract index < ret <= n-1
// (any such answer): the result starts at 0, is strictly increasing, in range, ends at
// a vertex equal (as a point) to the last one, and never lists two identical adjacent points.
func vrstub_findEndVertex(p Polyline, tolerance s1.Angle, index int) int {
	r := vr.Int("end")
	vr.Assume(vr.And(r > index, r <= len(p)-1))
	return r
}

func Harness_C20_subsample_structure() {
	vr.Domain("RUF")
	vr.Stub("findEndVertex", "vrstub_findEndVertex")
	nmax := 5
	if vr.Thorough() {
		nmax = 6
	}
	n := vr.Choose("n", 0, nmax)
	p := make(Polyline, n)
	for i := range p {
		p[i] = vrPoint("v")
	}
	res := p.SubsampleVertices(s1.Angle(vr.Float64("tol")))
	if n == 0 {
		vr.Assert("empty polyline gives empty result", len(res) == 0)
	} else {
		vr.Assert("non-empty result", len(res) >= 1)
		vr.Assert("starts with vertex 0", res[0] == 0)
		ok := true
		for i := 1; i < len(res); i++ {
			ok = vr.And(ok, vr.And(res[i-1] < res[i], res[i] < n))
			ok = vr.And(ok, p[res[i]] != p[res[i-1]])
		}
		vr.Assert("strictly increasing, in range, no identical adjacent output points", ok)
		vr.Assert("endpoint preserved (as a point)", p[res[len(res)-1]] == p[n-1])
	}
	vr.Reach("end")
}
