package s2

// C14 — concurrent read-only queries are safe and give serial answers.
// N goroutines each run a query entry point (ShapeIndex.Iterator, which applies
// pending updates under the index's protocol, followed by reads of the index) on one
// shared index with a pending shape (stale) or an already built one (fresh).  The thread
// body is the real code, executed once symbolically in event mode; schedules are SMT
// variables (timestamps, reads-from); see /verif/engine/sx/conc.go.

func vrC14Index(fresh bool) (*ShapeIndex, *PointVector) {
	pv := PointVector{PointFromCoords(1, 0.1, 0.2), PointFromCoords(0.2, 1, 0.1)}
	idx := NewShapeIndex()
	idx.Add(&pv)
	if fresh {
		idx.Build()
	}
	return idx, &pv
}

func vrC14Threads() int {
	if vr.Thorough() {
		return 3
	}
	return 2
}

func Harness_C14_iterator_protocol() {
	vr.Domain("FPX")
	vr.Unwind(2000)
	fresh := vr.Bool("startFresh")
	idx, _ := vrC14Index(fresh)
	vr.ConcRun(vrC14Threads(), func() {
		it := idx.Iterator() // maybeApplyUpdates, then reads index.cells
		n := 0
		for !it.Done() && n < 8 {
			_ = it.IndexCell()
			it.Next()
			n++
		}
		if !vr.Symbolic() {
			vr.Assert("a concurrent query sees the fully built index", n == 2 || n == 1)
		}
	})
	vr.Reach("end")
}

func Harness_C14_isfresh_and_queries() {
	vr.Domain("FPX")
	vr.Unwind(2000)
	fresh := vr.Bool("startFresh")
	idx, _ := vrC14Index(fresh)
	vr.ConcRun(vrC14Threads(), func() {
		if !idx.IsFresh() {
			idx.Build()
		}
		_ = idx.Len()
		it := idx.Begin()
		_ = it.Done()
	})
	vr.Reach("end")
}
