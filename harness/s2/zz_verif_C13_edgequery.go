package s2

import "github.com/golang/geo/s1"

// C13 (query objects) — the answer of a query object does not depend on which
// other calls were made on it before.

func vrC13SmallIndex() *ShapeIndex {
	pv := PointVector{PointFromCoords(1, 0.1, 0.2), PointFromCoords(1, -0.2, 0.1), PointFromCoords(0.1, 1, 0.2), PointFromCoords(0.3, 0.2, 1), PointFromCoords(-1, 0.3, 0.1), PointFromCoords(0.5, 0.5, 0.5)}
	idx := NewShapeIndex()
	idx.Add(&pv)
	return idx
}

func Harness_C13_edgequery_history() {
	vr.Domain("FPX")
	vr.Unwind(200)
	idx := vrC13SmallIndex()
	mr := vr.Int("maxResults")
	vr.Assume(vr.And(mr >= 1, mr <= 6))
	closest := vr.Bool("closest")
	var q *EdgeQuery
	var target distanceTarget
	tp := PointFromCoords(0.9, 0.4, 0.35)
	if closest {
		q = NewClosestEdgeQuery(idx, NewClosestEdgeQueryOptions().MaxResults(mr))
		target = NewMinDistanceToPointTarget(tp)
	} else {
		q = NewFurthestEdgeQuery(idx, NewFurthestEdgeQueryOptions().MaxResults(mr))
		target = NewMaxDistanceToPointTarget(tp)
	}
	r1 := append([]EdgeQueryResult(nil), q.FindEdges(target)...)
	for step := 0; step < 2; step++ {
		op := vr.Int("op")
		vr.Assume(vr.And(op >= 0, op <= 4))
		switch {
		case op == 0:
			_ = q.Distance(target)
		case op == 1:
			_ = q.IsDistanceLess(target, s1.ChordAngle(0.5))
		case op == 2:
			_ = q.IsDistanceGreater(target, s1.ChordAngle(0.5))
		case op == 3:
			_ = q.IsConservativeDistanceLessOrEqual(target, s1.ChordAngle(0.5))
		default:
			_ = q.FindEdges(target)
		}
	}
	r2 := q.FindEdges(target)
	vr.Assert("FindEdges gives the same answer whatever was called before", vrSameResults(r1, r2))
	vr.Reach("end")
}
