package s2

import "github.com/golang/geo/s1"

// C13 (query objects) — the answer of a query object does not depend on which
// other calls were made on it before.

func vrC13SmallIndex() *ShapeIndex {
	pv := PointVector{PointFromCoords(1, 0.1, 0.2), PointFromCoords(1, -0.2, 0.1), PointFromCoords(0.1, 1, 0.2), PointFromCoords(0.3, 0.2, 1), PointFromCoords(-1, 0.3, 0.1), PointFromCoords(0.5, 0.5, 0.5)}
	idx := NewShapeIndex()
	idx.Add(&pv)
	return idx
}

func vrC13NewQuery(idx *ShapeIndex, closest bool, mr int) *EdgeQuery {
	if closest {
		return NewClosestEdgeQuery(idx, NewClosestEdgeQueryOptions().MaxResults(mr))
	}
	return NewFurthestEdgeQuery(idx, NewFurthestEdgeQueryOptions().MaxResults(mr))
}

// every call on a used query object returns what the same call returns on a fresh
// query object with the same index and options
func Harness_C13_edgequery_history() {
	vr.Domain("FPX")
	vr.Unwind(200)
	idx := vrC13SmallIndex()
	mr := vr.Int("maxResults")
	vr.Assume(vr.And(mr >= 1, mr <= 6))
	closest := vr.Bool("closest")
	var target distanceTarget
	tp := PointFromCoords(0.9, 0.4, 0.35)
	if closest {
		target = NewMinDistanceToPointTarget(tp)
	} else {
		target = NewMaxDistanceToPointTarget(tp)
	}
	q := vrC13NewQuery(idx, closest, mr)
	r1 := append([]EdgeQueryResult(nil), q.FindEdges(target)...)
	limits := [3]s1.ChordAngle{0, 0.5, s1.StraightChordAngle}
	for step := 0; step < 2; step++ {
		op := vr.Int("op")
		vr.Assume(vr.And(op >= 0, op <= 4))
		li := vr.Int("limit")
		vr.Assume(vr.And(li >= 0, li <= 2))
		limit := limits[0]
		if li == 1 {
			limit = limits[1]
		} else if li == 2 {
			limit = limits[2]
		}
		fresh := vrC13NewQuery(idx, closest, mr)
		switch {
		case op == 0:
			vr.Assert("Distance on a used query == fresh query", q.Distance(target) == fresh.Distance(target))
		case op == 1:
			vr.Assert("IsDistanceLess on a used query == fresh query", q.IsDistanceLess(target, limit) == fresh.IsDistanceLess(target, limit))
		case op == 2:
			vr.Assert("IsDistanceGreater on a used query == fresh query", q.IsDistanceGreater(target, limit) == fresh.IsDistanceGreater(target, limit))
		case op == 3:
			vr.Assert("IsConservativeDistanceLessOrEqual on a used query == fresh query", q.IsConservativeDistanceLessOrEqual(target, limit) == fresh.IsConservativeDistanceLessOrEqual(target, limit))
		default:
			vr.Assert("FindEdges on a used query == fresh query", vrSameResults(q.FindEdges(target), fresh.FindEdges(target)))
		}
	}
	r2 := q.FindEdges(target)
	vr.Assert("FindEdges gives the same answer whatever was called before", vrSameResults(r1, r2))
	vr.Reach("end")
}

// Re-using a query object after the index changed (with EdgeQuery.Reset, the documented
// way): answers equal those of a fresh query on the current index.  The index is large
// enough (36 + 4 edges on several faces) for the optimized path and its cached covering.
func Harness_C13_edgequery_reuse_after_index_change() {
	vr.Domain("FPX")
	vr.Unwind(2000)
	pv := vrC08Points()
	idx := NewShapeIndex()
	idx.Add(&pv)
	extra := [2]PointVector{
		{PointFromCoords(-0.2, -1, 0.1), PointFromCoords(-0.25, -1, 0.12)},
		{PointFromCoords(0.1, 0.2, -1), PointFromCoords(0.15, 0.22, -1)},
	}
	mr := vr.Int("maxResults")
	vr.Assume(vr.And(mr >= 1, mr <= 3))
	target := NewMinDistanceToPointTarget(PointFromCoords(-0.2, -0.9, 0.15))
	q := NewClosestEdgeQuery(idx, NewClosestEdgeQueryOptions().MaxResults(mr))
	added := 0
	for step := 0; step < 3; step++ {
		op := vr.Int("op")
		vr.Assume(vr.And(op >= 0, op <= 1))
		if op == 0 {
			fresh := NewClosestEdgeQuery(idx, NewClosestEdgeQueryOptions().MaxResults(mr))
			vr.Assert("re-used query == fresh query on the current index", vrSameResults(q.FindEdges(target), fresh.FindEdges(target)))
		} else if added < 2 {
			idx.Add(&extra[added])
			added++
			q.Reset()
		}
	}
	fresh := NewClosestEdgeQuery(idx, NewClosestEdgeQueryOptions().MaxResults(mr))
	vr.Assert("final: re-used query == fresh query on the current index", vrSameResults(q.FindEdges(target), fresh.FindEdges(target)))
	vr.Reach("end")
}
