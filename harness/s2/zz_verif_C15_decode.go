package s2

import (
	"errors"
	"io"

	"github.com/golang/geo/r3"
)

// C15 — decoding arbitrary bytes is total: no panic, no over-limit allocation,
// bounded loops.  Input: symbolic byte array of symbolic length n <= vrReaderCap.
// Implicit obligations of the executor (index/slice bounds, nil dereference,
// division by zero, negative or over-limit make, explicit panic, unwinding) are
// the claim; the harness bodies only drive the decoders.

// vrReader: the input stream.  Symbolically it is a token oracle: every read
// nondeterministically returns fresh bytes, a fresh uvarint value, or end of input
// (then every later read fails), which over-approximates every concrete byte string
// of every length; the executor records the token trace and rebuilds the concrete
// bytes from the solver model for the native replay, where vrReader is an ordinary
// reader over those bytes and the real binary.ReadUvarint runs.
type vrReader struct {
	s   []byte
	pos int
}

func vrNewReader() *vrReader {
	vr.Stub("encoding/binary.ReadUvarint", "vrstub_ReadUvarint")
	return &vrReader{s: vr.Stream()}
}

func (r *vrReader) Read(p []byte) (int, error) {
	if vr.Symbolic() {
		k := vr.TokRead(p)
		if k == len(p) {
			return k, nil
		}
		if k == 0 {
			return 0, io.EOF
		}
		return 1, io.ErrUnexpectedEOF
	}
	if r.pos >= len(r.s) {
		return 0, io.EOF
	}
	n := copy(p, r.s[r.pos:])
	r.pos += n
	return n, nil
}

func (r *vrReader) ReadByte() (byte, error) {
	if vr.Symbolic() {
		b, ok := vr.TokByte()
		if !ok {
			return 0, io.EOF
		}
		return b, nil
	}
	if r.pos >= len(r.s) {
		return 0, io.EOF
	}
	b := r.s[r.pos]
	r.pos++
	return b, nil
}

func vrstub_ReadUvarint(r io.ByteReader) (uint64, error) {
	v, code := vr.TokUvarint()
	switch code {
	case 0:
		return v, nil
	case 1:
		return 0, io.EOF
	case 2:
		return 0, io.ErrUnexpectedEOF
	}
	return 0, errors.New("binary: varint overflows a 64-bit integer")
}

// Stubs: float geometry that runs on decoded values is outside the claim.
func vrstub_ExpandForSubregions(b Rect) Rect { return b }
func vrstub_initBound(l *Loop)               {}
func vrstub_initLoopProperties(p *Polygon)   {}
func vrstub_initEdgesAndIndex(p *Polygon)    {}
func vrstub_facePiQitoXYZ(face int, pi, qi uint32, level int) r3.Vector {
	return r3.Vector{X: vr.Float64("px"), Y: vr.Float64("py"), Z: vr.Float64("pz")}
}

func vrC15Stubs() {
	vr.Stub("ExpandForSubregions", "vrstub_ExpandForSubregions")
	vr.Stub("(*Loop).initBound", "vrstub_initBound")
	vr.Stub("(*Polygon).initLoopProperties", "vrstub_initLoopProperties")
	vr.Stub("(*Polygon).initEdgesAndIndex", "vrstub_initEdgesAndIndex")
	vr.Stub("facePiQitoXYZ", "vrstub_facePiQitoXYZ")
}


func Harness_C15_Point() {
	r := vrNewReader()
	var p Point
	err := p.Decode(r)
	_ = err
	vr.Reach("end")
}

func Harness_C15_Cap() {
	r := vrNewReader()
	var c Cap
	_ = c.Decode(r)
	vr.Reach("end")
}

func Harness_C15_Rect() {
	r := vrNewReader()
	var x Rect
	_ = x.Decode(r)
	vr.Reach("end")
}

func Harness_C15_CellID() {
	r := vrNewReader()
	var x CellID
	_ = x.Decode(r)
	vr.Reach("end")
}

func Harness_C15_Cell() {
	vr.Domain("RUF") // Cell.decode builds the cell (uv bounds) from the decoded id
	r := vrNewReader()
	var x Cell
	_ = x.Decode(r)
	vr.Reach("end")
}

func Harness_C15_CellUnion() {
	r := vrNewReader()
	var cu CellUnion
	err := cu.Decode(r)
	if err == nil {
		vr.Assert("decoded length within limit", len(cu) <= 1000000)
	}
	vr.Reach("end")
}

func Harness_C15_Polyline() {
	r := vrNewReader()
	var p Polyline
	_ = p.Decode(r)
	vr.Reach("end")
}

// Loop decoders are driven directly from an arbitrary stream; the polygon decoders
// are then checked with the loop decoders replaced by a stub that over-approximates
// their effect on the decoder and the loop (compositional split: the product of the
// per-loop path variants is what made the monolithic harness intractable).

func Harness_C15_Loop_lossless() {
	vrC15Stubs()
	r := vrNewReader()
	var l Loop
	err := l.Decode(r)
	if err == nil {
		vr.Assert("index allocated", l.index != nil)
	}
	vr.Reach("end")
}

func Harness_C15_Loop_compressed() {
	vrC15Stubs()
	r := vrNewReader()
	d := &decoder{r: asByteReader(r)}
	snapLevel := vr.Int("snapLevel")
	vr.Assume(vr.And(snapLevel >= 0, snapLevel <= MaxLevel)) // what Polygon.decodeCompressed passes
	l := new(Loop)
	if vr.Thorough() {
		vr.MakeSplit(3)
	} else {
		vr.MakeSplit(2)
	}
	l.decodeCompressed(d, snapLevel)
	vr.Reach("end")
}

// over-approximation of (*Loop).decode / decodeCompressed for the polygon-level harness
func vrstub_loopDecode(l *Loop, d *decoder) {
	_, _ = d.r.ReadByte() // consumes input (token), may hit EOF
	if vr.Bool("loopfail") {
		if d.err == nil {
			d.err = errors.New("loop decode failed")
		}
		return
	}
	l.vertices = make([]Point, vr.Choose("nv", 0, 2))
	l.index = NewShapeIndex()
}
func vrstub_loopDecodeCompressed(l *Loop, d *decoder, snapLevel int) { vrstub_loopDecode(l, d) }

func Harness_C15_Polygon() {
	vrC15Stubs()
	vr.Stub("(*Loop).decode", "vrstub_loopDecode")
	vr.Stub("(*Loop).decodeCompressed", "vrstub_loopDecodeCompressed")
	r := vrNewReader()
	vr.MakeSplit(3)
	var p Polygon
	err := p.Decode(r)
	if err == nil {
		vr.Assert("loops non-nil", vrAllLoopsNonNil(&p))
	}
	vr.Reach("end")
}

func vrAllLoopsNonNil(p *Polygon) bool {
	for _, l := range p.loops {
		if l == nil {
			return false
		}
	}
	return true
}

// "The decoded value can be queried": after a successful lossless Loop.Decode the basic
// queries must not panic — vertex accessors, the Shape methods and the brute-force
// containment test (the crossing predicate is the C04 oracle; bounds/index construction
// on decoded floats stays outside).
func Harness_C15_Loop_usable() {
	vr.Domain("RUF")
	vrC15Stubs()
	vr.Stub("(*EdgeCrosser).EdgeOrVertexChainCrossing", "vrstub_C04_EOVCC")
	vr.Stub("(*EdgeCrosser).RestartAt", "vrstub_C04_RestartAt")
	r := vrNewReader()
	var l Loop
	err := l.Decode(r)
	if err != nil {
		vr.Reach("rejected")
		return
	}
	p := vrBoundedPoint("p")
	vrC04P = p
	_ = l.NumEdges()
	_ = l.NumVertices()
	_ = l.NumChains()
	_ = l.IsEmpty()
	_ = l.bruteForceContainsPoint(p)
	vr.Reach("end")
}
