package s2

import "github.com/golang/geo/s1"

// C07 — the parallel walk of two indexes (hasCrossingRelation, loopCrosser.hasCrossingRelation)
// may answer "equivalent to a crossing" from edge-free cells only when there is a point P
// with A.ContainsPoint(P) and B.ContainsPoint(P) equal to the relation's two crossing
// targets.  The real walk runs on two hand-built indexes whose cells have no edges and whose
// containsCenter flags are solver variables; an edge-free cell lies entirely inside or
// entirely outside its loop, so the centre of the smaller of two nested cells is such a
// point P exactly when both flags match the targets.

func vrC07Index(ids []CellID, cc []bool) *ShapeIndex {
	idx := &ShapeIndex{cellMap: map[CellID]*ShapeIndexCell{}, status: fresh}
	for i, id := range ids {
		idx.cells = append(idx.cells, id)
		idx.cellMap[id] = &ShapeIndexCell{shapes: []*clippedShape{{containsCenter: cc[i]}}}
	}
	return idx
}

// cell sets (sorted, pairwise disjoint) over a small universe: X (level 1), two of its
// children, one grandchild, and a disjoint level-1 cell Y
func vrC07Cells(cfg int) []CellID {
	x := CellIDFromFace(2).Children()[1]
	y := CellIDFromFace(2).Children()[3]
	x0, x2 := x.Children()[0], x.Children()[2]
	switch cfg {
	case 0:
		return []CellID{x}
	case 1:
		return []CellID{x0, x2}
	case 2:
		return []CellID{x0.Children()[3], y}
	default:
		return []CellID{x, y}
	}
}

func vrC07Matches(cc bool, t crossingTarget) bool {
	return (t == crossingTargetCross && cc) || (t == crossingTargetDontCross && !cc)
}

// native witnesses through the public API (never executed symbolically): a large loop whose
// index has edge-free interior cells against a concentric smaller loop with several index cells
func vrC07WalkWitnesses() {
	c := PointFromCoords(0.3, 0.2, 1)
	for _, ra := range []float64{80, 100, 120} {
		for _, rb := range []float64{10, 30} {
			a := RegularLoop(c, s1.Angle(ra)*s1.Degree, 16)
			b := RegularLoop(c, s1.Angle(rb)*s1.Degree, 16)
			vr.Assert("a loop contains a concentric smaller loop (public API witness)", a.Contains(b))
			vr.Assert("a loop does not contain a concentric larger loop (public API witness)", !b.Contains(a))
			vr.Assert("concentric loops intersect (public API witness)", a.Intersects(b) && b.Intersects(a))
		}
	}
}

func Harness_C07_index_walk_edge_free_cells() {
	ca, cb := vrC07Cells(vr.Choose("cellsA", 0, 3)), vrC07Cells(vr.Choose("cellsB", 0, 3))
	fa := []bool{vr.Bool("a0"), vr.Bool("a1")}
	fb := []bool{vr.Bool("b0"), vr.Bool("b1")}
	a, b := &Loop{index: vrC07Index(ca, fa)}, &Loop{index: vrC07Index(cb, fb)}
	var rel loopRelation
	switch vr.Choose("relation", 0, 2) {
	case 0:
		rel = &containsRelation{}
	case 1:
		rel = &intersectsRelation{}
	default:
		rel = newCompareBoundaryRelation(false)
	}
	got := hasCrossingRelation(a, b, rel)
	witness := false
	for i, x := range ca {
		for j, y := range cb {
			if x.Intersects(y) && vrC07Matches(fa[i], rel.aCrossingTarget()) && vrC07Matches(fb[j], rel.bCrossingTarget()) {
				witness = true
			}
		}
	}
	vr.Assert("edge-free cells yield a crossing relation only with a point matching both crossing targets", vr.Implies(got, witness))
	if !vr.Symbolic() {
		vrC07WalkWitnesses()
	}
	vr.Reach("end")
}
