package s2

import "github.com/golang/geo/s1"

// C08 — closest/furthest edge queries equal an exhaustive scan.
// The real optimized search (index covering, priority queue, pruning) and the real
// brute-force scan run on the same concrete multi-face index; the query options and
// the call history are solver variables; results must be identical.

func vrC08Points() PointVector {
	var pv PointVector
	// 9 points around each of 4 face centres (+x, +y, +z, -x): 36 edges > brute-force threshold 30
	for f := 0; f < 4; f++ {
		for i := -1; i <= 1; i++ {
			for j := -1; j <= 1; j++ {
				a, b := 0.3*float64(i)+0.05, 0.25*float64(j)-0.03
				switch f {
				case 0:
					pv = append(pv, PointFromCoords(1, a, b))
				case 1:
					pv = append(pv, PointFromCoords(a, 1, b))
				case 2:
					pv = append(pv, PointFromCoords(a, b, 1))
				default:
					pv = append(pv, PointFromCoords(-1, a, b))
				}
			}
		}
	}
	return pv
}

func vrSameResults(a, b []EdgeQueryResult) bool {
	if len(a) != len(b) {
		return false
	}
	ok := true
	for i := range a {
		ok = vr.And(ok, vr.And(a[i].shapeID == b[i].shapeID, vr.And(a[i].edgeID == b[i].edgeID, a[i].Distance() == b[i].Distance())))
	}
	return ok
}

func vrC08Run(closest bool, target distanceTarget, maxResults int, limit s1.ChordAngle, useLimit bool, brute bool, idx *ShapeIndex) []EdgeQueryResult {
	var opts *EdgeQueryOptions
	if closest {
		opts = NewClosestEdgeQueryOptions()
	} else {
		opts = NewFurthestEdgeQueryOptions()
	}
	opts.MaxResults(maxResults)
	if useLimit {
		opts.DistanceLimit(limit)
	}
	opts.UseBruteForce(brute)
	var q *EdgeQuery
	if closest {
		q = NewClosestEdgeQuery(idx, opts)
	} else {
		q = NewFurthestEdgeQuery(idx, opts)
	}
	return append([]EdgeQueryResult(nil), q.FindEdges(target)...)
}

func Harness_C08_closest_equals_bruteforce() {
	vr.Domain("FPX")
	vr.Unwind(400)
	pv := vrC08Points()
	idx := NewShapeIndex()
	idx.Add(&pv)
	mr := vr.Int("maxResults")
	vr.Assume(vr.And(mr >= 1, mr <= 40))
	tp := PointFromCoords(0.9, 0.4, 0.35)
	ra := vrC08Run(true, NewMinDistanceToPointTarget(tp), mr, 0, false, false, idx)
	rb := vrC08Run(true, NewMinDistanceToPointTarget(tp), mr, 0, false, true, idx)
	vr.Assert("optimized closest-edge results == brute force", vrSameResults(ra, rb))
	vr.Reach("end")
}

func Harness_C08_furthest_equals_bruteforce() {
	vr.Domain("FPX")
	vr.Unwind(400)
	pv := vrC08Points()
	idx := NewShapeIndex()
	idx.Add(&pv)
	mr := vr.Int("maxResults")
	vr.Assume(vr.And(mr >= 1, mr <= 40))
	tp := PointFromCoords(0.9, 0.4, 0.35)
	ra := vrC08Run(false, NewMaxDistanceToPointTarget(tp), mr, 0, false, false, idx)
	rb := vrC08Run(false, NewMaxDistanceToPointTarget(tp), mr, 0, false, true, idx)
	vr.Assert("optimized furthest-edge results == brute force", vrSameResults(ra, rb))
	vr.Reach("end")
}

// With a target that uses maxError (ShapeIndex target) and maxResults > 1 the
// optimized search must avoid duplicates but still test every edge once: the number
// of results equals the brute-force number and every result is within maxError of
// the brute-force result of the same rank.
func Harness_C08_maxerror_target() {
	vr.Domain("FPX")
	vr.Unwind(400)
	pv := vrC08Points()
	idx := NewShapeIndex()
	idx.Add(&pv)
	tpv := PointVector{PointFromCoords(0.9, 0.4, 0.35)}
	tidx := NewShapeIndex()
	tidx.Add(&tpv)
	mr := vr.Int("maxResults")
	vr.Assume(vr.And(mr >= 1, mr <= 6))
	maxErr := s1.ChordAngle(0.0)
	if vr.Bool("withMaxError") {
		maxErr = s1.ChordAngle(0.001)
	}
	run := func(brute bool) []EdgeQueryResult {
		opts := NewClosestEdgeQueryOptions().MaxResults(mr).MaxError(maxErr).UseBruteForce(brute)
		q := NewClosestEdgeQuery(idx, opts)
		return append([]EdgeQueryResult(nil), q.FindEdges(NewMinDistanceToShapeIndexTarget(tidx))...)
	}
	ra := run(false)
	rb := run(true)
	vr.Assert("same number of results as brute force", len(ra) == len(rb))
	if len(ra) == len(rb) {
		for i := range ra {
			vr.Assert("result within maxError of the exhaustive scan", float64(ra[i].Distance()) <= float64(rb[i].Distance())+float64(maxErr)+1e-15)
		}
	}
	vr.Reach("end")
}

// Extended targets with a finite distance limit: the search disc must account for the
// target's own extent (cap radius) as well as the limit.
// a dense cluster of 42 points near (1, 0.36, 0.23): the index covering is a few small cells
func vrC08Cluster() PointVector {
	var pv PointVector
	for i := 0; i < 7; i++ {
		for j := 0; j < 6; j++ {
			pv = append(pv, PointFromCoords(1, 0.36+0.002*float64(i)-0.005, 0.23+0.0015*float64(j)-0.004))
		}
	}
	return pv
}

func Harness_C08_edge_target_with_limit() {
	vr.Domain("FPX")
	vr.Unwind(600)
	var pv PointVector
	if vr.Bool("clusteredIndex") {
		pv = vrC08Cluster()
	} else {
		pv = vrC08Points()
	}
	idx := NewShapeIndex()
	idx.Add(&pv)
	mr := vr.Int("maxResults")
	vr.Assume(vr.And(mr >= 1, mr <= 40))
	li := vr.Int("limit")
	vr.Assume(vr.And(li >= 0, li <= 2))
	limit := s1.ChordAngle(0.00002)
	if li == 1 {
		limit = s1.ChordAngle(0.01)
	} else if li == 2 {
		limit = s1.ChordAngle(0.6)
	}
	// a long edge whose endpoints are near index points on two different faces and whose
	// midpoint (the cap centre) is far from all of them
	// (asymmetric on purpose: with exactly equidistant edges and maxResults=1 the optimized and
	// the exhaustive search may legitimately report different edges of the same distance)
	edge := Edge{PointFromCoords(1, 0.36, 0.23), PointFromCoords(0.33, 1, 0.19)}
	closest := vr.Bool("closest")
	var ra, rb []EdgeQueryResult
	if closest {
		ra = vrC08Run(true, NewMinDistanceToEdgeTarget(edge), mr, limit, true, false, idx)
		rb = vrC08Run(true, NewMinDistanceToEdgeTarget(edge), mr, limit, true, true, idx)
	} else {
		flimit := s1.ChordAngle(4 - float64(limit))
		ra = vrC08Run(false, NewMaxDistanceToEdgeTarget(edge), mr, flimit, true, false, idx)
		rb = vrC08Run(false, NewMaxDistanceToEdgeTarget(edge), mr, flimit, true, true, idx)
	}
	vr.Assert("edge target with a distance limit: optimized results == brute force", vrSameResults(ra, rb))
	vr.Reach("end")
}
