package s2

// C11 — cell-union algebra is exact set algebra on leaf cells.
// Oracle: the leaf-interval model. covered(U,x) for a universally quantified valid
// leaf id x; set identities are asserted pointwise at the same x.

func vrCellIDs(name string, n int) CellUnion {
	cu := make(CellUnion, n)
	for i := range cu {
		cu[i] = vrValidCellID(name)
	}
	return cu
}

func vrLeaf(name string) CellID {
	x := vrValidCellID(name)
	vr.Assume(x.IsLeaf())
	return x
}

func vrCellCovers(id, x CellID) bool {
	return vr.And(id.RangeMin() <= x, x <= id.RangeMax())
}

func vrCovered(cu CellUnion, x CellID) bool {
	c := false
	for _, id := range cu {
		c = vr.Or(c, vrCellCovers(id, x))
	}
	return c
}

// normalized (sorted, disjoint, no four siblings) without forking
func vrIsNormalized(cu CellUnion) bool {
	ok := true
	for i := 1; i < len(cu); i++ {
		ok = vr.And(ok, cu[i-1].RangeMax() < cu[i].RangeMin())
	}
	for i := 3; i < len(cu); i++ {
		ok = vr.And(ok, !areSiblings(cu[i-3], cu[i-2], cu[i-1], cu[i]))
	}
	return ok
}

func vrC11N(q, t int) int {
	if vr.Thorough() {
		return t
	}
	return q
}

func vrstub_sortIdentity(ci []CellID) {}

func vrSorted(cu CellUnion) bool {
	ok := true
	for i := 1; i < len(cu); i++ {
		ok = vr.And(ok, cu[i-1] <= cu[i])
	}
	return ok
}

// sortCellIDs (sort.Sort over the real Less/Swap) returns a sorted permutation.
func Harness_C11_sort() {
	n := vr.Choose("n", 0, vrC11N(4, 5))
	cu := vrCellIDs("cu", n)
	v := CellID(vr.Uint64("probe"))
	cnt := 0
	for _, c := range cu {
		cnt += vr.IteInt(c == v, 1, 0)
	}
	sortCellIDs(cu)
	vr.Assert("sorted", vrSorted(cu))
	cnt2 := 0
	for _, c := range cu {
		cnt2 += vr.IteInt(c == v, 1, 0)
	}
	vr.Assert("permutation (multiplicity of every value preserved)", cnt == cnt2)
	vr.Reach("end")
}

// Normalize on arbitrary sorted inputs (duplicates and overlaps allowed) of bounded
// length; the sort is checked separately (Harness_C11_sort) and is the identity here.
func Harness_C11_normalize_bounded() {
	vr.Unwind(12)
	vr.Stub("sortCellIDs", "vrstub_sortIdentity")
	n := vr.Choose("n", 0, vrC11N(4, 5))
	cu := vrCellIDs("cu", n)
	vr.Assume(vrSorted(cu))
	x := vrLeaf("x")
	before := vrCovered(cu, x)
	cu.Normalize()
	vr.Assert("cover-preserved", vrCovered(cu, x) == before)
	vr.Assert("normalized(model)", vrIsNormalized(cu))
	vr.Assert("IsNormalized()", cu.IsNormalized())
	vr.Assert("IsValid()", cu.IsValid())
	vr.Assert("not-longer", len(cu) <= n)
	vr.Reach("end")
}

// Inductive step of Normalize's main loop: a normalized prefix followed by one more
// id that is not smaller than the last one (what sorted input guarantees).
func Harness_C11_normalize_step() {
	vr.Unwind(12)
	m := vr.Choose("m", 0, vrC11N(3, 4))
	out := vrCellIDs("out", m)
	vr.Assume(vrIsNormalized(out))
	ci := vrValidCellID("ci")
	if m > 0 {
		vr.Assume(ci >= out[m-1])
	}
	x := vrLeaf("x")
	want := vr.Or(vrCovered(out, x), vrCellCovers(ci, x))
	in := append(CellUnion(nil), out...)
	in = append(in, ci)
	in.Normalize()
	vr.Assert("step: cover = old ∪ cell", vrCovered(in, x) == want)
	vr.Assert("step: invariant re-established", vrIsNormalized(in))
	vr.Assert("step: last <= ci (next id stays >= last)", in[len(in)-1] <= ci)
	vr.Reach("end")
}

func Harness_C11_normalize_idempotent() {
	vr.Unwind(12)
	n := vr.Choose("n", 0, 3)
	cu := vrCellIDs("cu", n)
	vr.Assume(vrIsNormalized(cu))
	c2 := append(CellUnion(nil), cu...)
	c2.Normalize()
	vr.Assert("normalize of normalized is identity", c2.Equal(cu))
	vr.Reach("end")
}

// Membership queries on a normalized union.
func Harness_C11_membership() {
	n := vr.Choose("n", 0, vrC11N(3, 4))
	cu := vrCellIDs("cu", n)
	vr.Assume(vrIsNormalized(cu))
	id := vrValidCellID("id")
	lo, hi := id.RangeMin(), id.RangeMax()
	// contains ⇔ both ends covered by the same cell ⇔ some cell's range includes id's range
	want := false
	wantI := false
	for _, c := range cu {
		want = vr.Or(want, vr.And(c.RangeMin() <= lo, hi <= c.RangeMax()))
		wantI = vr.Or(wantI, vr.And(c.RangeMin() <= hi, lo <= c.RangeMax()))
	}
	vr.Assert("ContainsCellID", cu.ContainsCellID(id) == want)
	vr.Assert("IntersectsCellID", cu.IntersectsCellID(id) == wantI)
	x := vrLeaf("x")
	vr.Assert("contains ⇒ every leaf of id covered", vr.Implies(vr.And(want, vrCellCovers(id, x)), vrCovered(cu, x)))
	vr.Assert("¬intersects ⇒ no leaf of id covered", vr.Implies(vr.And(!wantI, vrCellCovers(id, x)), !vrCovered(cu, x)))
	vr.Reach("end")
}

func Harness_C11_contains_union() {
	n := vr.Choose("n", 0, 2)
	m := vr.Choose("m", 0, vrC11N(1, 2))
	a := vrCellIDs("a", n)
	b := vrCellIDs("b", m)
	vr.Assume(vrIsNormalized(a))
	vr.Assume(vrIsNormalized(b))
	x := vrLeaf("x")
	if a.Contains(b) {
		vr.Assert("Contains ⇒ pointwise", vr.Implies(vrCovered(b, x), vrCovered(a, x)))
	}
	if !a.Intersects(b) {
		vr.Assert("¬Intersects ⇒ disjoint", !vr.And(vrCovered(a, x), vrCovered(b, x)))
	} else {
		vr.Assert("Intersects symmetric", b.Intersects(a))
	}
	vr.Reach("end")
}

func Harness_C11_intersection() {
	vr.Unwind(12)
	n := vr.Choose("n", 0, vrC11N(2, 2))
	m := vr.Choose("m", 0, vrC11N(1, 1))
	a := vrCellIDs("a", n)
	b := vrCellIDs("b", m)
	vr.Assume(vrIsNormalized(a))
	vr.Assume(vrIsNormalized(b))
	x := vrLeaf("x")
	out := CellUnionFromIntersection(a, b)
	vr.Assert("intersection pointwise", vrCovered(out, x) == vr.And(vrCovered(a, x), vrCovered(b, x)))
	vr.Assert("intersection normalized", vrIsNormalized(out))
	vr.Reach("end")
}

func Harness_C11_intersection_with_cellid() {
	vr.Unwind(12)
	n := vr.Choose("n", 0, 3)
	a := vrCellIDs("a", n)
	vr.Assume(vrIsNormalized(a))
	id := vrValidCellID("id")
	x := vrLeaf("x")
	out := CellUnionFromIntersectionWithCellID(a, id)
	vr.Assert("∩ cell pointwise", vrCovered(out, x) == vr.And(vrCovered(a, x), vrCellCovers(id, x)))
	vr.Assert("∩ cell normalized", vrIsNormalized(out))
	vr.Reach("end")
}

func Harness_C11_union() {
	vr.Unwind(12)
	n := vr.Choose("n", 0, vrC11N(2, 2))
	m := vr.Choose("m", 0, vrC11N(1, 1))
	a := vrCellIDs("a", n)
	b := vrCellIDs("b", m)
	x := vrLeaf("x")
	out := CellUnionFromUnion(a, b)
	vr.Assert("union pointwise", vrCovered(out, x) == vr.Or(vrCovered(a, x), vrCovered(b, x)))
	vr.Assert("union normalized", vrIsNormalized(out))
	vr.Reach("end")
}

// Difference: recursion depth bounded by the level gap (assumed <= 2).
func Harness_C11_difference() {
	vr.Unwind(12)
	a := vrCellIDs("a", 1)
	m := vr.Choose("m", 0, vrC11N(1, 1))
	b := vrCellIDs("b", m)
	vr.Assume(vrIsNormalized(b))
	for _, c := range b {
		vr.Assume(c.Level() <= a[0].Level()+vrC11N(1, 1))
	}
	x := vrLeaf("x")
	out := CellUnionFromDifference(a, b)
	vr.Assert("difference pointwise", vrCovered(out, x) == vr.And(vrCovered(a, x), !vrCovered(b, x)))
	vr.Assert("difference sorted+disjoint", vrIsNormalized(out))
	vr.Reach("end")
}

func Harness_C11_leafcount() {
	n := vr.Choose("n", 0, 3)
	cu := vrCellIDs("cu", n)
	var want int64
	for _, c := range cu {
		want += int64(c.RangeMax()-c.RangeMin())/2 + 1
	}
	vr.Assert("LeafCellsCovered = Σ range sizes", cu.LeafCellsCovered() == want)
	vr.Reach("end")
}

// Range tiling: CellUnionFromRange covers exactly [begin,end), normalized, maximal tiles.
func vrTODO_C11_range_tiling() {
	vr.Unwind(10)
	begin := vrLeaf("begin")
	end := vrLeaf("end")
	vr.Assume(begin <= end)
	x := vrLeaf("x")
	cu := CellUnionFromRange(begin, end)
	if len(cu) > vrC11N(3, 5) {
		vr.Cut("tilings longer than the bound")
	}
	vr.Assert("covers exactly [begin,end)", vrCovered(cu, x) == vr.And(begin <= x, x < end))
	vr.Assert("tiling normalized", vrIsNormalized(cu))
	for _, t := range cu {
		if !t.isFace() {
			p := t.immediateParent()
			vr.Assert("tile maximal", !vr.And(p.RangeMin() == t.RangeMin(), vr.And(p.RangeMin() >= begin, p.RangeMax() < end)))
		}
	}
	vr.Reach("end")
}

// CellIndex: after Build, the labels reached from the range containing a probe leaf are
// exactly the labels of the indexed cells that contain the leaf (arbitrary overlap, nesting
// and duplicates); range nodes are strictly increasing and bracket the whole curve.
func vrTODO_C11_cellindex_contents_thorough() { // not registered: did not finish within 10 min in the thorough tier
	vr.Unwind(64)
	n := vr.Choose("n", 1, 2)
	ids := vrCellIDs("id", n)
	idx := &CellIndex{}
	for i, id := range ids {
		idx.Add(id, int32(i))
	}
	idx.Build()
	ok := true
	for i := 1; i < len(idx.rangeNodes); i++ {
		ok = vr.And(ok, idx.rangeNodes[i-1].startID < idx.rangeNodes[i].startID)
	}
	vr.Assert("range nodes strictly increasing", ok)
	vr.Assert("range nodes bracket the whole curve", vr.And(idx.rangeNodes[0].startID == CellIDFromFace(0).ChildBeginAtLevel(MaxLevel), idx.rangeNodes[len(idx.rangeNodes)-1].startID == CellIDFromFace(5).ChildEndAtLevel(MaxLevel)))
	x := vrLeaf("x")
	r := NewCellIndexRangeIterator(idx)
	r.Seek(x)
	vr.Assert("Seek: the probe leaf lies in the range", vr.And(r.StartID() <= x, x < r.LimitID()))
	c := NewCellIndexContentsIterator(idx)
	var got [3]bool
	cnt := 0
	for c.StartUnion(r); !c.Done(); c.Next() {
		l := c.Label()
		for i := 0; i < n; i++ {
			if l == int32(i) {
				vr.Assert("each (cell,label) pair reported once", !got[i])
				got[i] = true
			}
		}
		cnt++
		if cnt > 4 {
			break
		}
	}
	for i := 0; i < n; i++ {
		vr.Assert("label reported ⇔ its cell contains the probe leaf", got[i] == ids[i].Contains(x))
	}
	vr.Reach("end")
}
