package s2

// C04 — point containment is a parity of crossings.
// The crossing predicate of one edge (EdgeOrVertexCrossing of the segment origin→p with
// the edge c→d) is an uninterpreted oracle X(c,d) that is symmetric under reversal of
// the edge (C03); the loop code that chains the crosser over the vertices, wraps
// around to vertex 0, combines with originInside, and is inverted by Invert is real.

var vrC04P Point

func vrX(c, d Point) bool {
	// canonical argument order makes the oracle symmetric under edge reversal
	lo, hi := c, d
	if !vr.Symbolic() {
		return EdgeOrVertexCrossing(OriginPoint(), vrC04P, c, d)
	}
	sw := vrLexLess(d.Vector, c.Vector)
	lo.X, lo.Y, lo.Z = vr.IteF64(sw, d.X, c.X), vr.IteF64(sw, d.Y, c.Y), vr.IteF64(sw, d.Z, c.Z)
	hi.X, hi.Y, hi.Z = vr.IteF64(sw, c.X, d.X), vr.IteF64(sw, c.Y, d.Y), vr.IteF64(sw, c.Z, d.Z)
	return vr.UF9("X", lo.X, lo.Y, lo.Z, hi.X, hi.Y, hi.Z, 0, 0, 0) != 0
}

// stub of the chained crosser call: answers the oracle for (previous vertex, d) and advances
func vrstub_C04_EOVCC(e *EdgeCrosser, d Point) bool {
	c := e.c
	e.c = d
	return vrX(c, d)
}
func vrstub_C04_RestartAt(e *EdgeCrosser, c Point) { e.c = c }

func vrC04Loop() (*Loop, int) {
	n := 3
	if vr.Thorough() {
		n = vr.Choose("n", 3, 5)
	} else {
		n = vr.Choose("n", 3, 4)
	}
	vs := vrDistinctVertices(n)
	return &Loop{vertices: vs, originInside: vr.Bool("originInside"), index: NewShapeIndex()}, n
}

func Harness_C04_bruteforce_parity() {
	vr.Domain("RUF")
	vr.NoMerge()
	vr.Stub("(*EdgeCrosser).EdgeOrVertexChainCrossing", "vrstub_C04_EOVCC")
	vr.Stub("(*EdgeCrosser).RestartAt", "vrstub_C04_RestartAt")
	l, n := vrC04Loop()
	p := vrBoundedPoint("p")
	vrC04P = p
	want := l.originInside
	for i := 0; i < n; i++ {
		want = want != vrX(l.vertices[i], l.vertices[(i+1)%n])
	}
	vr.Assert("bruteForceContainsPoint == originInside ⊕ parity of edge crossings over all n edges", l.bruteForceContainsPoint(p) == want)
	vr.Reach("end")
}

func Harness_C04_invert_complements() {
	vr.Domain("RUF")
	vr.NoMerge()
	vr.Stub("(*EdgeCrosser).EdgeOrVertexChainCrossing", "vrstub_C04_EOVCC")
	vr.Stub("(*EdgeCrosser).RestartAt", "vrstub_C04_RestartAt")
	vr.Stub("(*Loop).initBound", "vrstub_initBound")
	l, _ := vrC04Loop()
	p := vrBoundedPoint("p")
	vrC04P = p
	before := l.bruteForceContainsPoint(p)
	l.Invert()
	vr.Assert("a loop and its inverse contain every point exactly once (brute-force path)", l.bruteForceContainsPoint(p) == !before)
	l.Invert()
	vr.Assert("inverting twice restores containment", l.bruteForceContainsPoint(p) == before)
	vr.Reach("end")
}

// Polygon.ReferencePoint: the origin is contained iff an odd number of loops contain it.
func Harness_C04_polygon_reference_parity() {
	n := vr.Choose("loops", 1, 4)
	p := &Polygon{}
	want := false
	for i := 0; i < n; i++ {
		in := vr.Bool("originInside")
		p.loops = append(p.loops, &Loop{vertices: vrPts(3*i, 3), originInside: in})
		want = want != in
	}
	vr.Assert("Polygon.ReferencePoint containment is the parity over its loops", p.ReferencePoint().Contained == want)
	vr.Reach("end")
}

// Every index-based containment path (Loop/Polygon.ContainsPoint above the brute-force
// threshold, ContainsPointQuery) starts with ShapeIndexIterator.LocatePoint: a point whose
// leaf cell lies in an index cell must be located in that cell (a miss is answered "not
// contained"), for every index of up to three cells and every leaf, first and last leaf of
// a cell included.  (Same body as the C06 harness of LocatePoint.)
func Harness_C04_index_path_locate_point() { vrLocatePointBody() }
